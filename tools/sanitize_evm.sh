#!/bin/bash
# sanitize_evm.sh <quick|thorough> <seed> <report.json>
# Memory-safety layer of C18: the EVM workload `vh evm-mini` (arbitrary bytes as runtime/init code,
# stack-limit programs, boundary memory operands, static wrappers; the C18 monitors stay on) run under
#   quick:    valgrind memcheck (release build)
#   thorough: valgrind memcheck, AddressSanitizer (nightly, own target dir), Miri (nightly)
# exit 0: no report; 1: a sanitizer or monitor report (log copied to /verif/replays); 2: tool failure.
set -u
TIER=${1:-quick}; SEED=${2:-1}; OUT=${3:-/verif/harness/target/sanitize_C18.json}
H=/verif/harness; BIN=$H/target/release/vh
LOGD=$H/target/sanitize-logs; rm -rf $LOGD; mkdir -p $LOGD /verif/replays
export CARGO_NET_OFFLINE=true
status=0
declare -A RUNS PROGS REPORTS STATE
note() { echo "sanitize: $*"; }

# run one shard: $1 tool, $2 shard index, rest = command. A shard's verdict: clean / report / tool-failure
shard() {
  local tool=$1 idx=$2; shift 2
  local log=$LOGD/$tool-$idx.log
  "$@" > $log 2>&1; local rc=$?
  echo $rc > $log.rc
}

collect() {
  local tool=$1 n=0 progs=0 rep=0 fail=0
  for rcf in $LOGD/$tool-*.log.rc; do
    [ -e "$rcf" ] || continue
    local log=${rcf%.rc} rc=$(cat $rcf)
    n=$((n+1))
    local p=$(grep -oE "^evm-mini seed=[0-9]+ n=[0-9]+" $log | grep -oE "n=[0-9]+" | cut -c3-)
    if grep -qE "MONITOR-VIOLATION|ERROR: AddressSanitizer|Undefined Behavior|ERROR SUMMARY: [1-9]|Invalid (read|write)|uninitialised value" $log; then
      rep=$((rep+1)); cp $log /verif/replays/C18-sanitizer-$tool-$(basename $log)
      echo "VIOLATION property=C18 replay=/verif/replays/C18-sanitizer-$tool-$(basename $log)"
    elif [ "$rc" != 0 ] || [ -z "$p" ]; then
      # crash signals are reports too (a wild read usually ends in SIGSEGV); anything else is a tool failure
      if [ "$rc" = 139 ] || [ "$rc" = 134 ] || [ "$rc" = 132 ] || [ "$rc" = 9 ]; then
        rep=$((rep+1)); cp $log /verif/replays/C18-sanitizer-$tool-$(basename $log)
        echo "VIOLATION property=C18 replay=/verif/replays/C18-sanitizer-$tool-$(basename $log)"
      else
        fail=$((fail+1)); note "$tool shard $(basename $log) ended with rc=$rc without a result line (inconclusive)"
      fi
    else
      progs=$((progs+p))
    fi
  done
  RUNS[$tool]=$n; PROGS[$tool]=$progs; REPORTS[$tool]=$rep; STATE[$tool]="ok"
  [ $fail -gt 0 ] && STATE[$tool]="inconclusive:$fail-shards"
  [ $rep -gt 0 ] && status=1
  note "$tool: shards=$n items=$progs reports=$rep ${STATE[$tool]}"
}

[ -x $BIN ] || { note "harness binary missing"; exit 2; }

# ---- valgrind memcheck
if [ "$TIER" = quick ]; then VS=4; VN=150; else VS=16; VN=1500; fi
for i in $(seq 1 $VS); do
  shard valgrind $i timeout 1500 valgrind --quiet --error-exitcode=9 --track-origins=no $BIN evm-mini $((SEED*1000+i)) $VN &
done
wait
collect valgrind

if [ "$TIER" = thorough ]; then
  # ---- AddressSanitizer
  if (cd $H && RUSTFLAGS="-Zsanitizer=address -Cforce-frame-pointers=yes" CARGO_TARGET_DIR=$H/target-asan cargo +nightly build --release --offline --features hooks --target x86_64-unknown-linux-gnu > $LOGD/asan-build.txt 2>&1); then
    AB=$H/target-asan/x86_64-unknown-linux-gnu/release/vh
    for i in $(seq 1 16); do
      ASAN_OPTIONS=halt_on_error=1:detect_leaks=0 shard asan $i timeout 1500 $AB evm-mini $((SEED*2000+i)) 3000 &
    done
    wait
    collect asan
  else
    note "ASan build failed (see $LOGD/asan-build.txt): inconclusive"; RUNS[asan]=0; PROGS[asan]=0; REPORTS[asan]=0; STATE[asan]="inconclusive:build-failed"
  fi
  # ---- Miri (about 40 s per item plus ~3 min of world setup per process)
  if (cd $H && MIRIFLAGS="-Zmiri-disable-isolation" cargo +nightly miri run --offline --features hooks -- evm-mini 0 0 > $LOGD/miri-build.txt 2>&1); then
    for i in $(seq 1 14); do
      (cd $H && MIRIFLAGS="-Zmiri-disable-isolation" shard miri $i timeout 3000 cargo +nightly miri run --offline --features hooks -- evm-mini $((SEED*3000+i)) 14) &
    done
    wait
    collect miri
  else
    if grep -q "Undefined Behavior" $LOGD/miri-build.txt; then
      cp $LOGD/miri-build.txt /verif/replays/C18-sanitizer-miri-setup.log
      echo "VIOLATION property=C18 replay=/verif/replays/C18-sanitizer-miri-setup.log"; status=1
    fi
    note "Miri could not run the workload (see $LOGD/miri-build.txt): inconclusive"; RUNS[miri]=0; PROGS[miri]=0; REPORTS[miri]=0; STATE[miri]="inconclusive:setup-failed"
  fi
fi

{
  echo "{"
  first=1
  for t in "${!RUNS[@]}"; do
    [ $first = 1 ] || echo ","
    first=0
    printf ' "%s": {"processes": %s, "workload_items": %s, "reports": %s, "state": "%s"}' "$t" "${RUNS[$t]}" "${PROGS[$t]}" "${REPORTS[$t]}" "${STATE[$t]}"
  done
  echo
  echo "}"
} > $OUT
exit $status
