#!/bin/bash
# run_seed.sh <seed-id|path/to/patch.diff> <property> [quick|thorough]
# Build the harness against /repo with a seeded change applied, undo the change at once, and run the
# check's workload with that seeded binary. /repo carries the change only while the build lock is held,
# so concurrently running checks (which build under the same lock) never see it.
set -u
ID=$1; PROP=$2; TIER=${3:-quick}
PATCH=/verif/seeded/$ID/patch.diff; [ -f "$ID" ] && PATCH=$(readlink -f "$ID")
NAME=$(basename $(dirname $PATCH))_$(basename $PATCH .diff)
H=/verif/harness; mkdir -p $H/target /tmp/wt
SB=$H/target/vh-seeded-$$
export CARGO_NET_OFFLINE=true
(
  flock 9
  cd /repo || exit 2
  [ -z "$(git status --porcelain)" ] || { echo "/repo not clean"; exit 2; }
  git apply $PATCH || exit 2
  (cd $H && cargo build --release --offline --features hooks > $H/target/build-seeded.log 2>&1); rc=$?
  [ $rc -eq 0 ] && cp $H/target/release/vh $SB
  git checkout -- .
  # restore the clean binary before anybody else can run it
  (cd $H && cargo build --release --offline --features hooks > /dev/null 2>&1)
  exit $rc
) 9>$H/target/.build.lock
[ $? -eq 0 ] || { echo "seeded build failed (see $H/target/build-seeded.log)"; tail -5 $H/target/build-seeded.log; exit 2; }
LOG=/tmp/wt/seedrun_${NAME}_$PROP.log
# evidence and replays of a seeded run must not overwrite the real ones
VH_EVIDENCE_DIR=/tmp/wt/seed-evidence $SB run $PROP $TIER > $LOG 2>&1; rc=$?
rm -f $SB
grep -E "^VIOLATION|^KNOWN|violation oracle|HARNESS|$PROP $TIER" $LOG | sort | uniq -c | sort -rn | head -12
echo "exit=$rc"
