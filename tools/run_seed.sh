#!/bin/bash
# run_seed.sh <seed-id> <property> [quick|thorough]  : apply a seeded change to /repo, run the check, undo it.
set -u
ID=$1; PROP=$2; TIER=${3:-quick}
cd /repo || exit 2
[ -z "$(git status --porcelain)" ] || { echo "/repo not clean"; exit 2; }
git apply /verif/seeded/$ID/patch.diff || exit 2
/verif/check $PROP $TIER > /tmp/wt/seedrun_${ID}_$PROP.log 2>&1; rc=$?
git checkout -- . ; git status --porcelain | head -3
grep -E "^VIOLATION|^KNOWN|violation oracle|HARNESS|$PROP $TIER" /tmp/wt/seedrun_${ID}_$PROP.log | sort | uniq -c | sort -rn | head -12
echo "exit=$rc"
# restore the harness build to the clean tree
/verif/check $PROP quick >/dev/null 2>&1
