#!/bin/bash
# confirm_seed.sh <worktree> <seed-id> <property> <demo-crate> <demo-test-name> <crates to test...>
# Confirms a seeded change in its scratch worktree (existing tests pass with it; the demonstration
# fails with it and passes without it), then files it under /verif/seeded/<seed-id>/.
set -u
WT=$1; ID=$2; PROP=$3; DCRATE=$4; DTEST=$5; shift 5
export CARGO_TARGET_DIR=${WT}-target CARGO_NET_OFFLINE=true
cd "$WT" || exit 2
PKGS=""; for c in "$@"; do PKGS="$PKGS -p $c"; done
LOG=/tmp/wt/confirm_$ID.log; : > $LOG
echo "== existing tests with the change (demo excluded)" | tee -a $LOG
DEMOFILES=$(git status --short | grep '^??' | awk '{print $2}' | grep -v '^OUT/' )
mkdir -p /tmp/wt/stash_$ID; for f in $DEMOFILES; do mkdir -p /tmp/wt/stash_$ID/$(dirname $f); mv $f /tmp/wt/stash_$ID/$f; done
cargo test --offline $PKGS 2>&1 | grep -E "^test result|FAILED|error(\[|:)" | tee -a $LOG
if grep -qE "FAILED|^error" $LOG; then echo "EXISTING TESTS FAIL WITH CHANGE" | tee -a $LOG; RES1=fail; else RES1=pass; fi
for f in $DEMOFILES; do mv /tmp/wt/stash_$ID/$f $f; done
echo "== demo with the change" | tee -a $LOG
cargo test --offline -p $DCRATE --test $DTEST 2>&1 | grep -E "^test result|FAILED" | tee /tmp/wt/demo_with_$ID.log | tee -a $LOG
grep -q "FAILED" /tmp/wt/demo_with_$ID.log && RES2=fails || RES2=passes
echo "== demo without the change" | tee -a $LOG
git apply -R OUT/patch.diff || { echo "cannot revert patch"; exit 2; }
cargo test --offline -p $DCRATE --test $DTEST 2>&1 | grep -E "^test result|FAILED" | tee /tmp/wt/demo_without_$ID.log | tee -a $LOG
grep -q "FAILED" /tmp/wt/demo_without_$ID.log && RES3=fails || { grep -q "test result: ok. [1-9]" /tmp/wt/demo_without_$ID.log && RES3=passes || RES3=unknown; }
git apply OUT/patch.diff
echo "RESULT existing_with_change=$RES1 demo_with=$RES2 demo_without=$RES3" | tee -a $LOG
if [ "$RES1" = pass ] && [ "$RES2" = fails ] && [ "$RES3" = passes ]; then
  D=/verif/seeded/$ID; mkdir -p $D/demo
  cp OUT/patch.diff $D/patch.diff; cp -r OUT/demo/. $D/demo/ 2>/dev/null; cp OUT/NOTES.md $D/NOTES.md 2>/dev/null
  for f in $DEMOFILES; do cp $f $D/demo/ 2>/dev/null; done
  echo "CONFIRMED -> $D"
else
  echo "NOT CONFIRMED"; exit 1
fi
