#!/usr/bin/env python3
"""Applies the verif-hooks instrumentation to /repo/actors/evm (run once; committed in /repo)."""
import sys
R='/repo/actors/evm/'
def sub(path, old, new, count=1):
    s=open(R+path).read()
    assert s.count(old)>=1, (path, old[:60])
    s=s.replace(old,new,count)
    open(R+path,'w').write(s)
part=sys.argv[1]
if part=='a':
    sub('Cargo.toml','[features]\nfil-actor = ["fil_actors_runtime/fil-actor"]','[features]\nfil-actor = ["fil_actors_runtime/fil-actor"]\n# Observation hooks for runtime verification (off by default; see src/interpreter/verif.rs).\nverif-hooks = []')
    open(R+'src/interpreter/verif.rs','w').write(open('/verif/tools/verif_rs.txt').read())
    sub('src/interpreter/mod.rs','mod system;\n','mod system;\n#[cfg(feature = "verif-hooks")]\npub mod verif;\n')
    sub('src/interpreter/execution.rs','        let op = self.bytecode[self.pc];\n        unsafe { Self::JMPTABLE[op as usize](self) }','        let op = self.bytecode[self.pc];\n        #[cfg(feature = "verif-hooks")]\n        super::verif::on_step(op, self.state.stack.len(), self.state.memory.len())?;\n        unsafe { Self::JMPTABLE[op as usize](self) }')
    sub('src/interpreter/instructions/control.rs','    // skip the JMPDEST noop sled\n    Ok(dst + 1)\n}\n\n#[inline]\npub fn jumpi','    #[cfg(feature = "verif-hooks")]\n    crate::interpreter::verif::on_jump(bytecode.len(), _pc, dst);\n    // skip the JMPDEST noop sled\n    Ok(dst + 1)\n}\n\n#[inline]\npub fn jumpi')
    sub('src/interpreter/instructions/control.rs','        // skip the JMPDEST noop sled\n        Ok(dst + 1)\n    } else {','        #[cfg(feature = "verif-hooks")]\n        crate::interpreter::verif::on_jump(bytecode.len(), pc, dst);\n        // skip the JMPDEST noop sled\n        Ok(dst + 1)\n    } else {')
    sub('src/interpreter/instructions/memory.rs','    mem.grow(new_size as usize);\n\n    Ok(Some(MemoryRegion {','    #[cfg(feature = "verif-hooks")]\n    crate::interpreter::verif::on_mem(new_size as usize)?;\n    mem.grow(new_size as usize);\n\n    Ok(Some(MemoryRegion {')
elif part=='b':
    sub('src/interpreter/system.rs','        self.rt.set_state_root(&new_root)?;\n        self.saved_state_root = Some(new_root);\n        Ok(())','        self.rt.set_state_root(&new_root)?;\n        self.saved_state_root = Some(new_root);\n        #[cfg(feature = "verif-hooks")]\n        super::verif::on_flush();\n        Ok(())')
    sub('src/interpreter/system.rs','        self.nonce = state.nonce;\n        self.saved_state_root = Some(root);','        self.nonce = state.nonce;\n        #[cfg(feature = "verif-hooks")]\n        super::verif::on_reload();\n        self.saved_state_root = Some(root);')
