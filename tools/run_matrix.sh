#!/bin/bash
# run_matrix.sh <tier> <seed> <prop...> : run checks sequentially on the current tree, one summary line each
TIER=$1; SEED=$2; shift 2
for p in "$@"; do
  s=$(date +%s)
  VERIF_SEED=$SEED /verif/check $p $TIER > /tmp/wt/matrix_${p}_${TIER}_${SEED}.log 2>&1; rc=$?
  e=$(date +%s)
  echo "$p $TIER seed=$SEED exit=$rc $((e-s))s $(grep -E "^$p $TIER" /tmp/wt/matrix_${p}_${TIER}_${SEED}.log | cut -c1-160)"
  grep -E "^VIOLATION|violation oracle|HARNESS-ERROR" /tmp/wt/matrix_${p}_${TIER}_${SEED}.log | sort | uniq -c | head -5
done
