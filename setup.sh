#!/bin/bash
# Build the harness from files on disk only (offline).
set -e
export CARGO_NET_OFFLINE=true
cd /verif/harness
mkdir -p target
cargo build --release --offline --features hooks 2>&1 | tail -n 5
echo "setup ok"
