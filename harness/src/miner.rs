//! Miner-side machinery: raw-state snapshot of a miner actor, and the harness's own recomputation
//! of everything the state memoises (C02, C03, C04), written against the protocol definitions.
//! The repo's types are used for *decoding only*.
use crate::framework::Outcome;
use crate::mvm::Mvm;
use crate::world::state;
use fil_actor_miner::{
    Deadline, Deadlines, ExpirationSet, MinerInfo, Partition, PowerPair, SectorOnChainInfo,
    SectorPreCommitOnChainInfo, State as MinerState, VestingFund,
};
use fil_actors_runtime::runtime::Policy;
use fil_actors_runtime::{Array, DEFAULT_HAMT_CONFIG, Map2};
use fvm_ipld_bitfield::BitField;
use fvm_ipld_encoding::CborStore;
use fvm_shared::address::Address;
use fvm_shared::bigint::{BigInt, Integer, Zero};
use fvm_shared::clock::ChainEpoch;
use fvm_shared::econ::TokenAmount;
use fvm_shared::sector::{SectorNumber, StoragePower};
use std::collections::{BTreeMap, BTreeSet};
use vm_api::VM;

pub type Bits = BTreeSet<u64>;

fn bits(b: &BitField) -> Bits {
    b.iter().collect()
}

#[derive(Clone, Debug, Default)]
pub struct ExpSetSnap {
    pub on_time: Bits,
    pub early: Bits,
    pub on_time_pledge: TokenAmount,
    pub active_power: (BigInt, BigInt),
    pub faulty_power: (BigInt, BigInt),
    pub fee_deduction: TokenAmount,
}

#[derive(Clone, Debug, Default)]
pub struct PartSnap {
    pub sectors: Bits,
    pub unproven: Bits,
    pub faults: Bits,
    pub recoveries: Bits,
    pub terminated: Bits,
    pub expirations: BTreeMap<ChainEpoch, ExpSetSnap>,
    pub early_terminated: BTreeMap<ChainEpoch, Bits>,
    pub live_power: (BigInt, BigInt),
    pub unproven_power: (BigInt, BigInt),
    pub faulty_power: (BigInt, BigInt),
    pub recovering_power: (BigInt, BigInt),
}

impl PartSnap {
    pub fn live(&self) -> Bits {
        self.sectors.difference(&self.terminated).cloned().collect()
    }
    /// live, not faulty, not unproven
    pub fn active(&self) -> Bits {
        self.live().into_iter().filter(|s| !self.faults.contains(s) && !self.unproven.contains(s)).collect()
    }
}

#[derive(Clone, Debug, Default)]
pub struct DlSnap {
    pub partitions: Vec<PartSnap>,
    pub expirations: BTreeMap<ChainEpoch, Bits>,
    pub partitions_posted: Bits,
    pub early_terminations: Bits,
    pub live_sectors: u64,
    pub total_sectors: u64,
    pub faulty_power: (BigInt, BigInt),
    pub live_power: (BigInt, BigInt),
    pub daily_fee: TokenAmount,
}

#[derive(Clone, Debug, PartialEq)]
pub struct InfoSnap {
    pub owner: Address,
    pub worker: Address,
    pub control: Vec<Address>,
    pub pending_worker: Option<(Address, ChainEpoch)>,
    pub sector_size: u64,
    pub partition_sectors: u64,
    pub consensus_fault_elapsed: ChainEpoch,
    pub pending_owner: Option<Address>,
    pub beneficiary: Address,
    pub term: (TokenAmount, TokenAmount, ChainEpoch),
    /// (new beneficiary, quota, expiration, approved by beneficiary, approved by nominee)
    pub pending_beneficiary: Option<(Address, TokenAmount, ChainEpoch, bool, bool)>,
}

#[derive(Clone, Debug)]
pub struct MinerSnap {
    pub id: u64,
    pub balance: TokenAmount,
    pub info: InfoSnap,
    pub pre_commit_deposits: TokenAmount,
    pub locked_funds: TokenAmount,
    pub vesting: Vec<(ChainEpoch, TokenAmount)>,
    pub fee_debt: TokenAmount,
    pub initial_pledge: TokenAmount,
    pub precommits: BTreeMap<SectorNumber, SectorPreCommitOnChainInfo>,
    pub allocated: Bits,
    pub sectors: BTreeMap<SectorNumber, SectorOnChainInfo>,
    pub proving_period_start: ChainEpoch,
    pub current_deadline: u64,
    pub deadlines: Vec<DlSnap>,
    pub early_terminations: Bits,
    pub deadline_cron_active: bool,
}

fn pp(p: &PowerPair) -> (BigInt, BigInt) {
    (p.raw.clone(), p.qa.clone())
}

pub fn snap_miner(v: &Mvm, addr: &Address) -> Option<MinerSnap> {
    let st: MinerState = state(v, addr)?;
    let bs = v.store.as_ref();
    let mi: MinerInfo = bs.get_cbor(&st.info).ok()??;
    let info = InfoSnap {
        owner: mi.owner,
        worker: mi.worker,
        control: mi.control_addresses.clone(),
        pending_worker: mi.pending_worker_key.as_ref().map(|k| (k.new_worker, k.effective_at)),
        sector_size: mi.sector_size as u64,
        partition_sectors: mi.window_post_partition_sectors,
        consensus_fault_elapsed: mi.consensus_fault_elapsed,
        pending_owner: mi.pending_owner_address,
        beneficiary: mi.beneficiary,
        term: (mi.beneficiary_term.quota.clone(), mi.beneficiary_term.used_quota.clone(), mi.beneficiary_term.expiration),
        pending_beneficiary: mi.pending_beneficiary_term.as_ref().map(|p| (p.new_beneficiary, p.new_quota.clone(), p.new_expiration, p.approved_by_beneficiary, p.approved_by_nominee)),
    };
    let mut precommits = BTreeMap::new();
    let pm: Map2<_, SectorNumber, SectorPreCommitOnChainInfo> =
        Map2::load(bs, &st.pre_committed_sectors, fil_actor_miner::PRECOMMIT_CONFIG, "precommits").ok()?;
    pm.for_each(|k, p| {
        precommits.insert(k, p.clone());
        Ok(())
    })
    .ok()?;
    let allocated: BitField = bs.get_cbor(&st.allocated_sectors).ok()??;
    let mut sectors = BTreeMap::new();
    let sa: Array<SectorOnChainInfo, _> = Array::load(&st.sectors, bs).ok()?;
    sa.for_each(|i, s| {
        sectors.insert(i, s.clone());
        Ok(())
    })
    .ok()?;
    let dls: Deadlines = bs.get_cbor(&st.deadlines).ok()??;
    let mut deadlines = vec![];
    for dcid in &dls.due {
        let d: Deadline = bs.get_cbor(dcid).ok()??;
        let mut ds = DlSnap {
            partitions_posted: bits(&d.partitions_posted),
            early_terminations: bits(&d.early_terminations),
            live_sectors: d.live_sectors,
            total_sectors: d.total_sectors,
            faulty_power: pp(&d.faulty_power),
            live_power: pp(&d.live_power),
            daily_fee: d.daily_fee.clone(),
            ..Default::default()
        };
        let parts: Array<Partition, _> = Array::load(&d.partitions, bs).ok()?;
        let mut idx_ok = true;
        let mut plist: Vec<Partition> = vec![];
        parts
            .for_each(|i, p| {
                if i != plist.len() as u64 {
                    idx_ok = false;
                }
                plist.push(p.clone());
                Ok(())
            })
            .ok()?;
        if !idx_ok {
            return None;
        }
        for p in plist {
            let mut ps = PartSnap {
                sectors: bits(&p.sectors),
                unproven: bits(&p.unproven),
                faults: bits(&p.faults),
                recoveries: bits(&p.recoveries),
                terminated: bits(&p.terminated),
                live_power: pp(&p.live_power),
                unproven_power: pp(&p.unproven_power),
                faulty_power: pp(&p.faulty_power),
                recovering_power: pp(&p.recovering_power),
                ..Default::default()
            };
            let eq: Array<ExpirationSet, _> = Array::load(&p.expirations_epochs, bs).ok()?;
            eq.for_each(|e, es| {
                ps.expirations.insert(
                    e as ChainEpoch,
                    ExpSetSnap {
                        on_time: bits(&es.on_time_sectors),
                        early: bits(&es.early_sectors),
                        on_time_pledge: es.on_time_pledge.clone(),
                        active_power: pp(&es.active_power),
                        faulty_power: pp(&es.faulty_power),
                        fee_deduction: es.fee_deduction.clone(),
                    },
                );
                Ok(())
            })
            .ok()?;
            let et: Array<BitField, _> = Array::load(&p.early_terminated, bs).ok()?;
            et.for_each(|e, b| {
                ps.early_terminated.insert(e as ChainEpoch, bits(b));
                Ok(())
            })
            .ok()?;
            ds.partitions.push(ps);
        }
        let de: Array<BitField, _> = Array::load(&d.expirations_epochs, bs).ok()?;
        de.for_each(|e, b| {
            ds.expirations.insert(e as ChainEpoch, bits(b));
            Ok(())
        })
        .ok()?;
        deadlines.push(ds);
    }
    let vf = st.vesting_funds.load(bs).ok()?;
    let vesting: Vec<(ChainEpoch, TokenAmount)> = vf.iter().map(|f: &VestingFund| (f.epoch, f.amount.clone())).collect();
    let _ = DEFAULT_HAMT_CONFIG;
    Some(MinerSnap {
        id: addr.id().unwrap(),
        balance: v.balance(addr),
        info,
        pre_commit_deposits: st.pre_commit_deposits.clone(),
        locked_funds: st.locked_funds.clone(),
        vesting,
        fee_debt: st.fee_debt.clone(),
        initial_pledge: st.initial_pledge.clone(),
        precommits,
        allocated: bits(&allocated),
        sectors,
        proving_period_start: st.proving_period_start,
        current_deadline: st.current_deadline,
        deadlines,
        early_terminations: bits(&st.early_terminations),
        deadline_cron_active: st.deadline_cron_active,
    })
}

// ---------------------------------------------------------------------------------------------
// protocol definitions, re-implemented

/// raw power = sector size; QA power = size x quality, quality from the verified spacetime at a 10x
/// multiplier over the sector's duration since its power-base epoch (20-bit fixed point, floor).
pub fn sector_power(size: u64, s: &SectorOnChainInfo) -> (BigInt, BigInt) {
    let duration = s.expiration - s.power_base_epoch;
    let spacetime = BigInt::from(size) * BigInt::from(duration);
    if spacetime.is_zero() || spacetime.sign() == fvm_shared::bigint::Sign::Minus {
        return (BigInt::from(size), BigInt::from(size));
    }
    let weighted: BigInt = (&spacetime - &s.verified_deal_weight) * 10 + &s.verified_deal_weight * 100;
    let scaled: BigInt = weighted << 20u32;
    let quality: BigInt = scaled.div_floor(&spacetime).div_floor(&BigInt::from(10));
    (BigInt::from(size), (BigInt::from(size) * quality) >> 20u32)
}

fn add2(a: &mut (BigInt, BigInt), b: &(BigInt, BigInt)) {
    a.0 += &b.0;
    a.1 += &b.1;
}

fn power_of(size: u64, sectors: &BTreeMap<SectorNumber, SectorOnChainInfo>, set: &Bits) -> Option<(BigInt, BigInt)> {
    let mut t = (BigInt::zero(), BigInt::zero());
    for s in set {
        add2(&mut t, &sector_power(size, sectors.get(s)?));
    }
    Some(t)
}

/// quantise up to the deadline's grid (unit = proving period, offset = last epoch of the deadline)
pub fn quant_up(e: ChainEpoch, unit: ChainEpoch, offset: ChainEpoch) -> ChainEpoch {
    let off = offset.rem_euclid(unit);
    let rem = (e - off).rem_euclid(unit);
    if rem == 0 { e } else { e - rem + unit }
}

/// C04: the sector bookkeeping is a consistent partition with exact summaries.
pub fn check_bookkeeping(policy: &Policy, m: &MinerSnap, o: &mut Outcome, when: &str) {
    o.count("bookkeeping_checks");
    let sig = |s: &str| format!("C04/{s}");
    let size = m.info.sector_size;
    // every on-chain / pre-committed sector number is allocated
    for n in m.sectors.keys().chain(m.precommits.keys()) {
        if !m.allocated.contains(n) {
            o.violate("allocated", sig("sector_number_not_allocated"), format!("{when}: miner {} sector {n} exists but its number is not marked allocated", m.id));
        }
    }
    for n in m.precommits.keys() {
        if m.sectors.contains_key(n) {
            o.violate("allocated", sig("sector_both_precommitted_and_proven"), format!("{when}: miner {} sector {n} is both pre-committed and on chain", m.id));
        }
    }
    let unit = policy.wpost_proving_period;
    let mut seen: BTreeMap<u64, (usize, usize)> = BTreeMap::new();
    let mut any_early = Bits::new();
    for (di, d) in m.deadlines.iter().enumerate() {
        // the deadline's last epoch (any period) fixes the quantisation offset
        let offset = m.proving_period_start + (di as i64 + 1) * policy.wpost_challenge_window - 1;
        let mut live_count = 0u64;
        let mut total_count = 0u64;
        let mut live_power = (BigInt::zero(), BigInt::zero());
        let mut faulty_power = (BigInt::zero(), BigInt::zero());
        let mut fee = TokenAmount::zero();
        let mut parts_with_early = Bits::new();
        let mut exp_by_epoch: BTreeMap<ChainEpoch, Bits> = BTreeMap::new();
        for (pi, p) in d.partitions.iter().enumerate() {
            let w = format!("{when}: miner {} deadline {di} partition {pi}", m.id);
            for s in &p.sectors {
                if let Some(prev) = seen.insert(*s, (di, pi)) {
                    o.violate("one_partition", sig("sector_in_two_partitions"), format!("{w}: sector {s} also in deadline {} partition {}", prev.0, prev.1));
                }
            }
            let live = p.live();
            let sub = |a: &Bits, b: &Bits| a.is_subset(b);
            if !sub(&p.terminated, &p.sectors) { o.violate("set_relations", sig("terminated_not_in_sectors"), w.clone()); }
            if !sub(&p.faults, &live) { o.violate("set_relations", sig("faults_not_live"), format!("{w}: faults {:?} live {:?}", p.faults, live)); }
            if !sub(&p.unproven, &live) { o.violate("set_relations", sig("unproven_not_live"), w.clone()); }
            if !sub(&p.recoveries, &p.faults) { o.violate("set_relations", sig("recoveries_not_faults"), format!("{w}: recoveries {:?} faults {:?}", p.recoveries, p.faults)); }
            if p.faults.intersection(&p.unproven).next().is_some() { o.violate("set_relations", sig("faulty_and_unproven"), w.clone()); }
            for s in &live {
                if !m.sectors.contains_key(s) {
                    o.violate("live_sectors_exist", sig("live_sector_missing_info"), format!("{w}: live sector {s} has no on-chain info"));
                }
            }
            // power memos
            let cmp = |name: &str, memo: &(BigInt, BigInt), set: &Bits, o: &mut Outcome| {
                match power_of(size, &m.sectors, set) {
                    Some(want) => {
                        if &want != memo {
                            o.violate("power_memo", sig(&format!("partition_{name}_power")), format!("{w}: {name} power memo {:?} but recomputed from sectors {:?} = {:?}", memo, set, want));
                        }
                    }
                    None => {}
                }
            };
            cmp("live", &p.live_power, &live, o);
            cmp("unproven", &p.unproven_power, &p.unproven, o);
            cmp("faulty", &p.faulty_power, &p.faults, o);
            cmp("recovering", &p.recovering_power, &p.recoveries, o);
            // expiration queue
            let mut in_queue = Bits::new();
            let mut fee_q = TokenAmount::zero();
            for (e, es) in &p.expirations {
                if quant_up(*e, unit, offset) != *e {
                    o.violate("queue_quantised", sig("expiration_key_not_quantised"), format!("{w}: expiration queue key {e} is off the deadline's grid"));
                }
                exp_by_epoch.entry(*e).or_default().insert(pi as u64);
                let mut pledge = TokenAmount::zero();
                let mut fee_e = TokenAmount::zero();
                for s in es.on_time.iter().chain(es.early.iter()) {
                    if !in_queue.insert(*s) {
                        o.violate("queue_once", sig("sector_in_queue_twice"), format!("{w}: sector {s} appears twice in the expiration queue"));
                    }
                }
                for s in &es.on_time {
                    if let Some(info) = m.sectors.get(s) {
                        let t = quant_up(info.expiration, unit, offset);
                        if t != *e {
                            o.violate("queue_epoch", sig("on_time_expiration_epoch"), format!("{w}: sector {s} (expiration {}) queued on time at {e}, expected {t}", info.expiration));
                        }
                        pledge += &info.initial_pledge;
                        fee_e += &info.daily_fee;
                    }
                }
                for s in &es.early {
                    if !p.faults.contains(s) {
                        o.violate("queue_epoch", sig("early_expiration_not_faulty"), format!("{w}: sector {s} expiring early at {e} but not faulty"));
                    }
                    if let Some(info) = m.sectors.get(s) {
                        if *e >= quant_up(info.expiration, unit, offset) {
                            o.violate("queue_epoch", sig("early_expiration_not_early"), format!("{w}: sector {s} early expiration {e} not before its on-time epoch"));
                        }
                        fee_e += &info.daily_fee;
                    }
                }
                let all: Bits = es.on_time.union(&es.early).cloned().collect();
                let act: Bits = all.difference(&p.faults).cloned().collect();
                let flt: Bits = all.intersection(&p.faults).cloned().collect();
                if let (Some(a), Some(f)) = (power_of(size, &m.sectors, &act), power_of(size, &m.sectors, &flt)) {
                    if a != es.active_power || f != es.faulty_power {
                        o.violate("queue_summary", sig("expiration_set_power"), format!("{w}: expiration set at {e}: active {:?} faulty {:?}, recomputed {:?} / {:?}", es.active_power, es.faulty_power, a, f));
                    }
                }
                if pledge != es.on_time_pledge {
                    o.violate("queue_summary", sig("expiration_set_pledge"), format!("{w}: expiration set at {e}: on-time pledge {} recomputed {pledge}", es.on_time_pledge));
                }
                if fee_e != es.fee_deduction {
                    o.violate("queue_summary", sig("expiration_set_fee"), format!("{w}: expiration set at {e}: fee deduction {} recomputed {fee_e}", es.fee_deduction));
                }
                fee_q += fee_e;
            }
            if in_queue != live {
                o.violate("queue_covers_live", sig("expiration_queue_ne_live"), format!("{w}: expiration queue holds {:?} but live sectors are {:?}", in_queue, live));
            }
            // early termination queue
            let mut et_all = Bits::new();
            for (e, b) in &p.early_terminated {
                for s in b {
                    if !p.terminated.contains(s) {
                        o.violate("early_terminated", sig("early_terminated_not_terminated"), format!("{w}: sector {s} queued for early termination at {e} but not terminated"));
                    }
                    et_all.insert(*s);
                }
            }
            if !et_all.is_empty() {
                parts_with_early.insert(pi as u64);
            }
            let live_fee: TokenAmount = live.iter().filter_map(|s| m.sectors.get(s)).map(|i| i.daily_fee.clone()).sum();
            if fee_q != live_fee {
                o.violate("fee_memo", sig("partition_fee_deductions"), format!("{w}: queue fee deductions {fee_q} but live sectors' daily fees sum to {live_fee}"));
            }
            live_count += live.len() as u64;
            total_count += p.sectors.len() as u64;
            add2(&mut live_power, &p.live_power);
            add2(&mut faulty_power, &p.faulty_power);
            fee += live_fee;
        }
        let w = format!("{when}: miner {} deadline {di}", m.id);
        if d.live_sectors != live_count || d.total_sectors != total_count {
            o.violate("deadline_memo", sig("deadline_sector_counts"), format!("{w}: live/total memo {}/{} recomputed {live_count}/{total_count}", d.live_sectors, d.total_sectors));
        }
        if d.live_power != live_power || d.faulty_power != faulty_power {
            o.violate("deadline_memo", sig("deadline_power"), format!("{w}: live {:?} faulty {:?} recomputed {:?} / {:?}", d.live_power, d.faulty_power, live_power, faulty_power));
        }
        if d.daily_fee != fee {
            o.violate("deadline_memo", sig("deadline_daily_fee"), format!("{w}: daily fee memo {} recomputed {fee}", d.daily_fee));
        }
        if d.early_terminations != parts_with_early {
            o.violate("deadline_memo", sig("deadline_early_terminations"), format!("{w}: early-termination partitions {:?} recomputed {:?}", d.early_terminations, parts_with_early));
        }
        for (e, ps) in &exp_by_epoch {
            let have = d.expirations.get(e).cloned().unwrap_or_default();
            if !ps.is_subset(&have) {
                o.violate("deadline_memo", sig("deadline_expiration_index"), format!("{w}: partitions {:?} expire at {e} but the deadline's index has {:?}", ps, have));
            }
        }
        for e in d.expirations.keys() {
            if quant_up(*e, unit, offset) != *e {
                o.violate("queue_quantised", sig("deadline_expiration_key_not_quantised"), format!("{w}: key {e}"));
            }
        }
        if let Some(last) = d.partitions_posted.iter().next_back()
            && *last >= d.partitions.len() as u64
        {
            o.violate("deadline_memo", sig("posted_partition_out_of_range"), format!("{w}: posted {:?} of {} partitions", d.partitions_posted, d.partitions.len()));
        }
        if !parts_with_early.is_empty() {
            any_early.insert(di as u64);
        }
    }
    for n in m.sectors.keys() {
        if !seen.contains_key(n) {
            o.violate("one_partition", sig("sector_in_no_partition"), format!("{when}: miner {} sector {n} is on chain but in no partition", m.id));
        }
    }
    if m.early_terminations != any_early {
        o.violate("deadline_memo", sig("miner_early_terminations"), format!("{when}: miner {} early-termination deadlines {:?} recomputed {:?}", m.id, m.early_terminations, any_early));
    }
}

/// sectors that are live or terminated-early-but-still-queued (their pledge is still held)
fn pledge_bearing(m: &MinerSnap) -> Bits {
    let mut b = Bits::new();
    for d in &m.deadlines {
        for p in &d.partitions {
            b.extend(p.live());
        }
    }
    b
}

/// C03 (miner side): the three ledgers equal the sums of their parts.
pub fn check_ledgers(m: &MinerSnap, o: &mut Outcome, when: &str) {
    o.count("ledger_checks");
    let pcd: TokenAmount = m.precommits.values().map(|p| p.pre_commit_deposit.clone()).sum();
    if pcd != m.pre_commit_deposits {
        o.violate("pcd_ledger", "C03/pre_commit_deposits_ne_sum", format!("{when}: miner {} pre-commit deposit total {} but outstanding pre-commitments hold {pcd}", m.id, m.pre_commit_deposits));
    }
    let vest: TokenAmount = m.vesting.iter().map(|v| v.1.clone()).sum();
    if vest != m.locked_funds {
        o.violate("vesting_ledger", "C03/locked_funds_ne_vesting_table", format!("{when}: miner {} locked funds {} but the vesting schedule sums to {vest}", m.id, m.locked_funds));
    }
    // initial pledge: live sectors; sectors terminated early keep their info (and pledge is released
    // at termination), so the sum runs over live sectors only
    let live = pledge_bearing(m);
    let ip: TokenAmount = live.iter().filter_map(|s| m.sectors.get(s)).map(|s| s.initial_pledge.clone()).sum();
    if ip != m.initial_pledge {
        o.violate("pledge_ledger", "C03/initial_pledge_ne_sum", format!("{when}: miner {} initial pledge total {} but live sectors hold {ip}", m.id, m.initial_pledge));
    }
    for (n, a) in [("pre_commit_deposits", &m.pre_commit_deposits), ("locked_funds", &m.locked_funds), ("initial_pledge", &m.initial_pledge), ("fee_debt", &m.fee_debt)] {
        if a.is_negative() {
            o.violate("ledger_sign", format!("C03/negative_{n}"), format!("{when}: miner {} {n} = {a}", m.id));
        }
    }
}

/// the power a miner should be credited: live, proven, not faulty
pub fn expected_claim(m: &MinerSnap) -> (BigInt, BigInt) {
    let size = m.info.sector_size;
    let mut t = (BigInt::zero(), BigInt::zero());
    for d in &m.deadlines {
        for p in &d.partitions {
            if let Some(x) = power_of(size, &m.sectors, &p.active()) {
                add2(&mut t, &x);
            }
        }
    }
    t
}

pub fn total_sectors_live(m: &MinerSnap) -> usize {
    pledge_bearing(m).len()
}

pub type Claims = BTreeMap<u64, (StoragePower, StoragePower)>;

pub fn power_claims(v: &Mvm) -> (Claims, fil_actor_power::State) {
    let st: fil_actor_power::State = state(v, &fil_actors_runtime::STORAGE_POWER_ACTOR_ADDR).unwrap();
    let claims = st.load_claims(v.store.as_ref()).unwrap();
    let mut m = Claims::new();
    claims
        .for_each(|a: Address, c: &fil_actor_power::Claim| {
            m.insert(a.id().unwrap(), (c.raw_byte_power.clone(), c.quality_adj_power.clone()));
            Ok(())
        })
        .unwrap();
    (m, st)
}
