//! Miner world and workload grammar (state-aware generation of miner messages).
use crate::framework::Outcome;
use crate::market::{DAY, create_miner, power_cron_queue};
use crate::miner::{MinerSnap, snap_miner};
use crate::mvm::{INVALID_POST, INVALID_SEAL, Inv, Mvm, TEST_VM_RAND_ARRAY};
use crate::rng::Rng;
use crate::world::*;
use fil_actor_miner::{
    ChangeBeneficiaryParams, ChangeWorkerAddressParams, CompactCommD, CompactPartitionsParams,
    CompactSectorNumbersParams, DeclareFaultsParams, DeclareFaultsRecoveredParams,
    DisputeWindowedPoStParams, ExpirationExtension2, ExtendSectorExpiration2Params, FaultDeclaration,
    Method as MinerMethod, PoStPartition, PreCommitSectorBatchParams2, ProveCommitSectors3Params,
    ProveCommitSectorsNIParams, RecoveryDeclaration, ReportConsensusFaultParams,
    SectorActivationManifest, SectorNIActivationInfo, SectorPreCommitInfo, SubmitWindowedPoStParams,
    TerminateSectorsParams, TerminationDeclaration, WithdrawBalanceParams,
};
use fil_actors_runtime::runtime::Policy;
use fil_actors_runtime::test_utils::{make_piece_cid, make_sealed_cid};
use fil_actors_runtime::{REWARD_ACTOR_ADDR, SYSTEM_ACTOR_ADDR};
use fvm_ipld_bitfield::BitField;
use fvm_ipld_encoding::RawBytes;
use fvm_shared::address::Address;
use fvm_shared::bigint::{BigInt, Zero};
use num_traits::Signed;
use fvm_shared::clock::ChainEpoch;
use fvm_shared::consensus::{ConsensusFault, ConsensusFaultType};
use fvm_shared::econ::TokenAmount;
use fvm_shared::piece::PieceInfo;
use fvm_shared::randomness::Randomness;
use fvm_shared::sector::{
    PoStProof, RegisteredAggregateProof, RegisteredPoStProof, RegisteredSealProof, SectorNumber,
};
use integer_encoding::VarInt;
use std::collections::{BTreeMap, BTreeSet};
use vm_api::{MockPrimitives, VM};

#[derive(Clone, Debug)]
pub struct Mn {
    pub addr: Address,
    pub owner: Address,
    pub worker: Address,
    pub post_proof: RegisteredPoStProof,
    pub seal_proof: RegisteredSealProof,
    pub ni_proof: RegisteredSealProof,
    pub next_sector: SectorNumber,
    pub creation_deposit: TokenAmount,
    pub whale: bool,
    /// the harness keeps this miner's sectors proven (PoSt for every open deadline)
    pub auto_post: bool,
}

pub struct MinerWorld {
    pub v: Mvm,
    pub miners: Vec<Mn>,
    pub others: Vec<Address>,
    pub genesis_total: TokenAmount,
}

/// policy used by miner worlds: default + 2 KiB proofs enabled (2-sector partitions), and the
/// consensus minimum lowered so that the threshold can be crossed in both directions
pub fn miner_policy(min_power: u64) -> Policy {
    let mut p = Policy::default();
    p.valid_post_proof_type.insert(RegisteredPoStProof::StackedDRGWindow2KiBV1P1);
    p.valid_pre_commit_proof_type.insert(RegisteredSealProof::StackedDRG2KiBV1P1);
    p.valid_prove_commit_ni_proof_type.insert(RegisteredSealProof::StackedDRG2KiBV1P2_Feat_NiPoRep);
    p.valid_prove_commit_ni_proof_type.insert(RegisteredSealProof::StackedDRG32GiBV1P2_Feat_NiPoRep);
    p.minimum_consensus_power = BigInt::from(min_power);
    // verified pieces must fit the 2 KiB test sectors
    p.minimum_verified_allocation_size = BigInt::from(256);
    p
}

pub fn fake_unsealed_cid_pub(proof_type: RegisteredSealProof, pis: &[PieceInfo]) -> Result<cid::Cid, anyhow::Error> {
    fake_unsealed_cid(proof_type, pis)
}

fn fake_unsealed_cid(proof_type: RegisteredSealProof, pis: &[PieceInfo]) -> Result<cid::Cid, anyhow::Error> {
    if pis.is_empty() {
        return Ok(CompactCommD::empty().get_cid(proof_type).unwrap());
    }
    let mut buf: Vec<u8> = Vec::new();
    let ptv: i64 = proof_type.into();
    buf.extend(ptv.encode_var_vec());
    for p in pis {
        buf.extend(&p.cid.to_bytes());
        buf.extend(p.size.0.encode_var_vec())
    }
    Ok(make_piece_cid(&buf))
}

/// `kinds`: per miner, true = 2 KiB sectors, false = 32 GiB. A whale (32 GiB, many sectors) can be
/// added so that the network pledge total is large, as on a real network.
pub fn miner_world(seed: u64, policy: Policy, kinds: &[bool], whale_sectors: u64, start_epoch: ChainEpoch) -> MinerWorld {
    let v = genesis(policy);
    install_sig_scheme(&v);
    v.mut_primitives().override_compute_unsealed_sector_cid(fake_unsealed_cid);
    v.set_epoch(start_epoch);
    let genesis_total = v.total_balance();
    let n = kinds.len() + if whale_sectors > 0 { 1 } else { 0 };
    let accts = make_accounts(&v, 2 * n + 4, seed, &fil(50_000_000));
    let bls: Vec<Address> = accts.iter().cloned().enumerate().filter(|(i, _)| i % 2 == 1).map(|x| x.1).collect();
    let secp: Vec<Address> = accts.iter().cloned().enumerate().filter(|(i, _)| i % 2 == 0).map(|x| x.1).collect();
    let mut miners = vec![];
    let mut used = BTreeSet::new();
    for k in 0..n {
        let whale = k >= kinds.len();
        let small = !whale && kinds[k];
        let (post, seal, ni) = if small {
            (RegisteredPoStProof::StackedDRGWindow2KiBV1P1, RegisteredSealProof::StackedDRG2KiBV1P1, RegisteredSealProof::StackedDRG2KiBV1P2_Feat_NiPoRep)
        } else {
            (RegisteredPoStProof::StackedDRGWindow32GiBV1P1, RegisteredSealProof::StackedDRG32GiBV1P1, RegisteredSealProof::StackedDRG32GiBV1P2_Feat_NiPoRep)
        };
        let (owner, worker) = (secp[k], bls[k]);
        used.insert(owner);
        used.insert(worker);
        let addr = create_miner(&v, &owner, &worker, post);
        let st: fil_actor_miner::State = state(&v, &addr).unwrap();
        // working capital
        let (r, _) = call0(&v, &owner, &addr, &fil(if whale { 1_000_000 } else { 20_000 }), fvm_shared::METHOD_SEND);
        assert!(r.code.is_success());
        miners.push(Mn { addr, owner, worker, post_proof: post, seal_proof: seal, ni_proof: ni, next_sector: 100 * (k as u64 + 1), creation_deposit: st.locked_funds.clone(), whale, auto_post: whale });
    }
    let others: Vec<Address> = accts.iter().cloned().filter(|a| !used.contains(a)).collect();
    let mut w = MinerWorld { v, miners, others, genesis_total };
    if whale_sectors > 0 {
        let wi = w.miners.len() - 1;
        whale_onboard(&mut w, wi, whale_sectors);
        // let the whale's sectors be proven (a bit more than one proving period), then start from a
        // network whose smoothed power estimate has converged to the actual power, as on a
        // long-running network (the genesis estimate of 750 PiB would otherwise take months of
        // ticks to decay and make every fee projection ill-conditioned)
        let mut o = Outcome::default();
        let to = w.v.epoch() + w.v.policy.wpost_proving_period + 200;
        advance_light(&w, to, &mut o);
        let mut pst: fil_actor_power::State = state(&w.v, &fil_actors_runtime::STORAGE_POWER_ACTOR_ADDR).unwrap();
        if pst.total_qa_bytes_committed.is_positive() {
            pst.this_epoch_qa_power_smoothed = fil_actors_runtime::reward::FilterEstimate::new(pst.total_qa_bytes_committed.clone(), BigInt::zero());
            let head = w.v.put_store(&pst);
            let mut a = w.v.actor(&fil_actors_runtime::STORAGE_POWER_ACTOR_ADDR).unwrap();
            a.state = head;
            w.v.set_actor(&fil_actors_runtime::STORAGE_POWER_ACTOR_ADDR, a);
            w.v.checkpoint();
        }
    }
    w.v.invs.borrow_mut().clear();
    w
}

fn whale_onboard(w: &mut MinerWorld, wi: usize, n: u64) {
    let m = w.miners[wi].clone();
    let epoch = w.v.epoch();
    let exp = epoch + 400 * DAY;
    let nums: Vec<SectorNumber> = (0..n).map(|i| m.next_sector + i).collect();
    w.miners[wi].next_sector += n;
    for chunk in nums.chunks(200) {
        let (r, _) = precommit(&w.v, &m, &m.worker, chunk, exp, None);
        assert!(r.code.is_success(), "whale precommit failed: {} {}", r.code, r.message);
    }
    let p = w.v.policy.pre_commit_challenge_delay;
    w.v.set_epoch(epoch + p + 1);
    for chunk in nums.chunks(100) {
        let (r, _) = prove_commit(&w.v, &m, &m.worker, chunk, &BTreeSet::new(), true);
        assert!(r.code.is_success(), "whale prove-commit failed: {} {}", r.code, r.message);
    }
}

// ---------------------------------------------------------------------------------------------
// deadline arithmetic (harness's own)

#[derive(Clone, Copy, Debug)]
pub struct Dl {
    pub period_start: ChainEpoch,
    pub index: u64,
    pub open: ChainEpoch,
    pub close: ChainEpoch,
    pub challenge: ChainEpoch,
}

impl Dl {
    pub fn last(&self) -> ChainEpoch {
        self.close - 1
    }
}

/// the deadline that contains `epoch` for a miner whose proving periods start at `pps + k*period`
pub fn deadline_at(policy: &Policy, pps: ChainEpoch, epoch: ChainEpoch) -> Dl {
    let period = policy.wpost_proving_period;
    let win = policy.wpost_challenge_window;
    let into = (epoch - pps).rem_euclid(period);
    let period_start = epoch - into;
    let index = (into / win) as u64;
    let open = period_start + index as i64 * win;
    Dl { period_start, index, open, close: open + win, challenge: open - policy.wpost_challenge_lookback }
}

// ---------------------------------------------------------------------------------------------
// message builders

pub fn precommit(v: &Mvm, m: &Mn, caller: &Address, sectors: &[SectorNumber], expiration: ChainEpoch, commd_for: Option<&BTreeMap<SectorNumber, cid::Cid>>) -> (vm_api::MessageResult, Option<Inv>) {
    let infos: Vec<SectorPreCommitInfo> = sectors
        .iter()
        .map(|sn| SectorPreCommitInfo {
            seal_proof: m.seal_proof,
            sector_number: *sn,
            sealed_cid: make_sealed_cid(format!("sn:{}:{}", m.addr, sn).as_bytes()),
            seal_rand_epoch: v.epoch() - 1,
            deal_ids: vec![],
            expiration,
            unsealed_cid: match commd_for.and_then(|c| c.get(sn)) {
                Some(c) => CompactCommD::of(*c),
                None => CompactCommD::empty(),
            },
        })
        .collect();
    call(v, caller, &m.addr, &TokenAmount::zero(), MinerMethod::PreCommitSectorBatch2 as u64, Some(&PreCommitSectorBatchParams2 { sectors: infos }))
}

pub fn prove_commit(v: &Mvm, m: &Mn, caller: &Address, sectors: &[SectorNumber], bad_proofs: &BTreeSet<SectorNumber>, require_success: bool) -> (vm_api::MessageResult, Option<Inv>) {
    let params = ProveCommitSectors3Params {
        sector_activations: sectors.iter().map(|sn| SectorActivationManifest { sector_number: *sn, pieces: vec![] }).collect(),
        sector_proofs: sectors.iter().map(|sn| if bad_proofs.contains(sn) { RawBytes::new(INVALID_SEAL.to_vec()) } else { RawBytes::new(vec![*sn as u8; 4]) }).collect(),
        aggregate_proof: RawBytes::default(),
        aggregate_proof_type: None,
        require_activation_success: require_success,
        require_notification_success: false,
    };
    call(v, caller, &m.addr, &TokenAmount::zero(), MinerMethod::ProveCommitSectors3 as u64, Some(&params))
}

pub fn prove_commit_pieces(v: &Mvm, m: &Mn, caller: &Address, sectors: Vec<(SectorNumber, Vec<fil_actor_miner::PieceActivationManifest>)>, require_success: bool) -> (vm_api::MessageResult, Option<Inv>) {
    let params = ProveCommitSectors3Params {
        sector_proofs: sectors.iter().map(|(sn, _)| RawBytes::new(vec![*sn as u8; 4])).collect(),
        sector_activations: sectors.into_iter().map(|(sn, pieces)| SectorActivationManifest { sector_number: sn, pieces }).collect(),
        aggregate_proof: RawBytes::default(),
        aggregate_proof_type: None,
        require_activation_success: require_success,
        require_notification_success: false,
    };
    call(v, caller, &m.addr, &TokenAmount::zero(), MinerMethod::ProveCommitSectors3 as u64, Some(&params))
}

pub fn commd_of(seal: RegisteredSealProof, pieces: &[PieceInfo]) -> cid::Cid {
    fake_unsealed_cid(seal, pieces).unwrap()
}

/// ProveReplicaUpdates3: (sector, deadline, partition, pieces) per update
pub fn prove_replica_updates(v: &Mvm, m: &Mn, caller: &Address, updates: Vec<(SectorNumber, u64, u64, Vec<fil_actor_miner::PieceActivationManifest>)>, require_success: bool) -> (vm_api::MessageResult, Option<Inv>) {
    let update_proof = m.seal_proof.registered_update_proof().unwrap();
    let params = fil_actor_miner::ProveReplicaUpdates3Params {
        sector_proofs: updates.iter().map(|(sn, ..)| RawBytes::new(vec![*sn as u8; 4])).collect(),
        sector_updates: updates
            .into_iter()
            .map(|(sn, d, p, pieces)| fil_actor_miner::SectorUpdateManifest { sector: sn, deadline: d, partition: p, new_sealed_cid: make_sealed_cid(format!("upd:{}:{}:{}", m.addr, sn, v.epoch()).as_bytes()), pieces })
            .collect(),
        aggregate_proof: RawBytes::default(),
        update_proofs_type: update_proof,
        aggregate_proof_type: None,
        require_activation_success: require_success,
        require_notification_success: false,
    };
    call(v, caller, &m.addr, &TokenAmount::zero(), MinerMethod::ProveReplicaUpdates3 as u64, Some(&params))
}

pub fn prove_commit_ni(v: &Mvm, m: &Mn, caller: &Address, sectors: &[SectorNumber], expiration: ChainEpoch, deadline: u64) -> (vm_api::MessageResult, Option<Inv>) {
    let params = ProveCommitSectorsNIParams {
        sectors: sectors
            .iter()
            .map(|sn| SectorNIActivationInfo {
                sealing_number: *sn,
                sealer_id: m.addr.id().unwrap(),
                sealed_cid: make_sealed_cid(format!("ni:{}:{}", m.addr, sn).as_bytes()),
                sector_number: *sn,
                seal_rand_epoch: v.epoch() - 1,
                expiration,
            })
            .collect(),
        aggregate_proof: RawBytes::new(vec![1u8; 1024]),
        seal_proof_type: m.ni_proof,
        aggregate_proof_type: RegisteredAggregateProof::SnarkPackV2,
        proving_deadline: deadline,
        require_activation_success: false,
    };
    call(v, caller, &m.addr, &TokenAmount::zero(), MinerMethod::ProveCommitSectorsNI as u64, Some(&params))
}

pub fn submit_post(v: &Mvm, m: &Mn, caller: &Address, dl: &Dl, partitions: Vec<(u64, Vec<u64>)>, valid: bool) -> (vm_api::MessageResult, Option<Inv>) {
    let params = SubmitWindowedPoStParams {
        deadline: dl.index,
        partitions: partitions.into_iter().map(|(index, skipped)| PoStPartition { index, skipped: BitField::try_from_bits(skipped).unwrap() }).collect(),
        proofs: vec![PoStProof { post_proof: m.post_proof, proof_bytes: if valid { vec![1, 2, 3] } else { INVALID_POST.as_bytes().to_vec() } }],
        chain_commit_epoch: dl.challenge.max(v.epoch() - 10).min(v.epoch() - 1),
        chain_commit_rand: Randomness(TEST_VM_RAND_ARRAY.into()),
    };
    call(v, caller, &m.addr, &TokenAmount::zero(), MinerMethod::SubmitWindowedPoSt as u64, Some(&params))
}

fn bf(v: &[u64]) -> BitField {
    BitField::try_from_bits(v.iter().cloned()).unwrap()
}

pub fn declare_faults(v: &Mvm, m: &Mn, caller: &Address, decls: &[(u64, u64, Vec<u64>)]) -> (vm_api::MessageResult, Option<Inv>) {
    let params = DeclareFaultsParams { faults: decls.iter().map(|(d, p, s)| FaultDeclaration { deadline: *d, partition: *p, sectors: bf(s) }).collect() };
    call(v, caller, &m.addr, &TokenAmount::zero(), MinerMethod::DeclareFaults as u64, Some(&params))
}

pub fn declare_recovered(v: &Mvm, m: &Mn, caller: &Address, decls: &[(u64, u64, Vec<u64>)]) -> (vm_api::MessageResult, Option<Inv>) {
    let params = DeclareFaultsRecoveredParams { recoveries: decls.iter().map(|(d, p, s)| RecoveryDeclaration { deadline: *d, partition: *p, sectors: bf(s) }).collect() };
    call(v, caller, &m.addr, &TokenAmount::zero(), MinerMethod::DeclareFaultsRecovered as u64, Some(&params))
}

pub fn terminate_sectors(v: &Mvm, m: &Mn, caller: &Address, decls: &[(u64, u64, Vec<u64>)]) -> (vm_api::MessageResult, Option<Inv>) {
    let params = TerminateSectorsParams { terminations: decls.iter().map(|(d, p, s)| TerminationDeclaration { deadline: *d, partition: *p, sectors: bf(s) }).collect() };
    call(v, caller, &m.addr, &TokenAmount::zero(), MinerMethod::TerminateSectors as u64, Some(&params))
}

pub fn extend_sectors(v: &Mvm, m: &Mn, caller: &Address, decls: &[(u64, u64, Vec<u64>, ChainEpoch)]) -> (vm_api::MessageResult, Option<Inv>) {
    let params = ExtendSectorExpiration2Params {
        extensions: decls.iter().map(|(d, p, s, e)| ExpirationExtension2 { deadline: *d, partition: *p, sectors: bf(s), sectors_with_claims: vec![], new_expiration: *e }).collect(),
    };
    call(v, caller, &m.addr, &TokenAmount::zero(), MinerMethod::ExtendSectorExpiration2 as u64, Some(&params))
}

pub fn compact_partitions(v: &Mvm, m: &Mn, caller: &Address, deadline: u64, parts: &[u64]) -> (vm_api::MessageResult, Option<Inv>) {
    call(v, caller, &m.addr, &TokenAmount::zero(), MinerMethod::CompactPartitions as u64, Some(&CompactPartitionsParams { deadline, partitions: bf(parts) }))
}

pub fn compact_sector_numbers(v: &Mvm, m: &Mn, caller: &Address, mask: &[u64]) -> (vm_api::MessageResult, Option<Inv>) {
    call(v, caller, &m.addr, &TokenAmount::zero(), MinerMethod::CompactSectorNumbers as u64, Some(&CompactSectorNumbersParams { mask_sector_numbers: bf(mask) }))
}

pub fn dispute_post(v: &Mvm, m: &Mn, caller: &Address, deadline: u64, post_index: u64) -> (vm_api::MessageResult, Option<Inv>) {
    call(v, caller, &m.addr, &TokenAmount::zero(), MinerMethod::DisputeWindowedPoSt as u64, Some(&DisputeWindowedPoStParams { deadline, post_index }))
}

pub fn withdraw(v: &Mvm, m: &Mn, caller: &Address, amount: &TokenAmount) -> (vm_api::MessageResult, Option<Inv>) {
    call(v, caller, &m.addr, &TokenAmount::zero(), MinerMethod::WithdrawBalance as u64, Some(&WithdrawBalanceParams { amount_requested: amount.clone() }))
}

pub fn award_block_reward(v: &Mvm, miner: &Address, penalty: &TokenAmount, gas_reward: &TokenAmount, wins: i64) -> (vm_api::MessageResult, Option<Inv>) {
    let p = fil_actor_reward::AwardBlockRewardParams { miner: *miner, penalty: penalty.clone(), gas_reward: gas_reward.clone(), win_count: wins };
    call(v, &SYSTEM_ACTOR_ADDR, &REWARD_ACTOR_ADDR, &TokenAmount::zero(), fil_actor_reward::Method::AwardBlockReward as u64, Some(&p))
}

pub fn report_consensus_fault(v: &Mvm, m: &Mn, reporter: &Address, fault_epoch: ChainEpoch, target: &Address) -> (vm_api::MessageResult, Option<Inv>) {
    v.consensus_fault.replace(Some(ConsensusFault { target: *target, epoch: fault_epoch, fault_type: ConsensusFaultType::DoubleForkMining }));
    let r = call(v, reporter, &m.addr, &TokenAmount::zero(), MinerMethod::ReportConsensusFault as u64, Some(&ReportConsensusFaultParams { header1: vec![1], header2: vec![2], header_extra: vec![] }));
    v.consensus_fault.replace(None);
    r
}

pub fn change_worker(v: &Mvm, m: &Mn, caller: &Address, new_worker: &Address, controls: Vec<Address>) -> (vm_api::MessageResult, Option<Inv>) {
    call(v, caller, &m.addr, &TokenAmount::zero(), MinerMethod::ChangeWorkerAddress as u64, Some(&ChangeWorkerAddressParams { new_worker: *new_worker, new_control_addresses: controls }))
}

pub fn change_beneficiary(v: &Mvm, m: &Mn, caller: &Address, p: &ChangeBeneficiaryParams) -> (vm_api::MessageResult, Option<Inv>) {
    call(v, caller, &m.addr, &TokenAmount::zero(), MinerMethod::ChangeBeneficiary as u64, Some(p))
}

// ---------------------------------------------------------------------------------------------
// sector location helpers over a snapshot

/// (deadline, partition) of every sector in partitions
pub fn locations(s: &MinerSnap) -> BTreeMap<u64, (u64, u64)> {
    let mut m = BTreeMap::new();
    for (di, d) in s.deadlines.iter().enumerate() {
        for (pi, p) in d.partitions.iter().enumerate() {
            for x in &p.sectors {
                m.insert(*x, (di as u64, pi as u64));
            }
        }
    }
    m
}

/// group sectors into (deadline, partition, sectors) declarations
pub fn group(s: &MinerSnap, sectors: &[u64], rng: &mut Rng, scramble: bool) -> Vec<(u64, u64, Vec<u64>)> {
    let loc = locations(s);
    let mut g: BTreeMap<(u64, u64), Vec<u64>> = BTreeMap::new();
    for x in sectors {
        let (mut d, mut p) = loc.get(x).cloned().unwrap_or((rng.below(48), rng.below(2)));
        if scramble && rng.chance(1, 10) {
            d = rng.below(48);
            p = rng.below(3);
        }
        g.entry((d, p)).or_default().push(*x);
    }
    g.into_iter().map(|((d, p), v)| (d, p, v)).collect()
}

/// run the cron at every epoch up to `to` (dense), or only at epochs with scheduled work (sparse)
pub fn advance_miners(v: &Mvm, to: ChainEpoch, dense: bool, each_tick: &mut dyn FnMut(ChainEpoch, &Inv, bool)) {
    crate::market::advance(v, to, dense, each_tick)
}

/// full snapshots of the miners under test (the whale is read through `lite` only)
pub fn snaps(w: &MinerWorld) -> Vec<MinerSnap> {
    w.miners.iter().filter(|m| !m.whale).map(|m| snap_miner(&w.v, &m.addr).expect("miner snapshot")).collect()
}

/// ledger totals of a miner without decoding its sectors
#[derive(Clone, Debug)]
pub struct MinerLite {
    pub id: u64,
    pub balance: TokenAmount,
    pub pre_commit_deposits: TokenAmount,
    pub locked_funds: TokenAmount,
    pub initial_pledge: TokenAmount,
}

pub fn whale_lite(w: &MinerWorld) -> Vec<MinerLite> {
    w.miners
        .iter()
        .filter(|m| m.whale)
        .map(|m| {
            let st: fil_actor_miner::State = state(&w.v, &m.addr).unwrap();
            MinerLite { id: m.addr.id().unwrap(), balance: w.v.balance(&m.addr), pre_commit_deposits: st.pre_commit_deposits, locked_funds: st.locked_funds, initial_pledge: st.initial_pledge }
        })
        .collect()
}

/// keep auto-posted miners' sectors proven: submits a PoSt for all partitions of the miner's
/// currently open deadline that are not yet posted (reads only that deadline). `on_accept` is told
/// about accepted PoSts of miners under test (with the snapshot taken just before).
pub fn maintenance(w: &MinerWorld, o: &mut Outcome, on_accept: &mut dyn FnMut(&MinerSnap, u64, &[(u64, Vec<u64>)])) {
    use fvm_ipld_encoding::CborStore;
    for m in w.miners.iter().filter(|m| m.auto_post) {
        let st: fil_actor_miner::State = state(&w.v, &m.addr).unwrap();
        let dl = deadline_at(&w.v.policy, st.proving_period_start, w.v.epoch());
        if w.v.epoch() <= dl.open {
            continue;
        }
        let bs = w.v.store.as_ref();
        let dls: fil_actor_miner::Deadlines = bs.get_cbor(&st.deadlines).unwrap().unwrap();
        let d: fil_actor_miner::Deadline = bs.get_cbor(&dls.due[dl.index as usize]).unwrap().unwrap();
        if d.live_sectors == 0 {
            continue;
        }
        let parts: fil_actors_runtime::Array<fil_actor_miner::Partition, _> = fil_actors_runtime::Array::load(&d.partitions, bs).unwrap();
        let todo: Vec<(u64, Vec<u64>)> = (0..parts.count()).filter(|p| !d.partitions_posted.get(*p)).map(|p| (p, vec![])).collect();
        if todo.is_empty() {
            continue;
        }
        let pre = if m.whale { None } else { snap_miner(&w.v, &m.addr) };
        if let Some(pre) = &pre {
            // a competent operator first declares its faulty sectors recovered (when still allowed)
            let faulty: Vec<(u64, u64, Vec<u64>)> = pre.deadlines.iter().enumerate().flat_map(|(di, d)| d.partitions.iter().enumerate().filter(|(_, p)| p.faults.len() > p.recoveries.len()).map(move |(pi, p)| (di as u64, pi as u64, p.faults.difference(&p.recoveries).cloned().collect::<Vec<u64>>()))).filter(|x| x.0 != dl.index && x.0 != (dl.index + 1) % 48).collect();
            if !faulty.is_empty() {
                let (r, _) = declare_recovered(&w.v, m, &m.worker, &faulty);
                o.count(if r.code.is_success() { "auto_recoveries_ok" } else { "auto_recoveries_failed" });
            }
        }
        let pre = if m.whale { None } else { snap_miner(&w.v, &m.addr) };
        let (r, _) = submit_post(&w.v, m, &m.worker, &dl, todo.clone(), true);
        if m.whale {
            o.count(if r.code.is_success() { "whale_posts_ok" } else { "whale_posts_failed" });
        } else {
            o.count(if r.code.is_success() { "auto_posts_ok" } else { "auto_posts_failed" });
            if let (true, Some(pre)) = (r.code.is_success(), &pre) {
                on_accept(pre, dl.index, &todo);
            }
        }
    }
}

pub fn whale_maintenance(w: &MinerWorld, o: &mut Outcome) {
    maintenance(w, o, &mut |_, _, _| {});
}

/// advance to `to` ticking every epoch with scheduled work, giving every auto-posted miner a PoSt
/// opportunity in each of its deadlines; returns false if a tick failed
pub fn advance_light(w: &MinerWorld, to: ChainEpoch, o: &mut Outcome) -> bool {
    let mut ok_all = true;
    while w.v.epoch() < to {
        whale_maintenance(w, o);
        let e = w.v.epoch();
        let mut stop_at = to;
        for m in w.miners.iter().filter(|m| m.auto_post) {
            let st: fil_actor_miner::State = state(&w.v, &m.addr).unwrap();
            let dl = deadline_at(&w.v.policy, st.proving_period_start, e);
            let next = if e <= dl.open { dl.open + 1 } else { dl.close + 1 };
            stop_at = stop_at.min(next);
        }
        advance_miners(&w.v, stop_at.max(e + 1), false, &mut |_, inv, ok| {
            o.count("ticks");
            if !ok {
                ok_all = false;
            }
            inv.walk(&mut |i, _, _| {
                if i.method == fil_actor_miner::Method::OnDeferredCronEvent as u64 && !i.ok() && !i.injected {
                    ok_all = false;
                }
            });
        });
        if !ok_all {
            return false;
        }
    }
    true
}

pub fn cron_events_for(v: &Mvm, miner: &Address) -> Vec<(ChainEpoch, i64)> {
    let mut out = vec![];
    for (e, evs) in power_cron_queue(v) {
        for ev in evs {
            if ev.miner_addr == *miner {
                let p: fil_actor_miner::CronEventPayload = ev.callback_payload.deserialize().unwrap();
                out.push((e, p.event_type));
            }
        }
    }
    out
}
