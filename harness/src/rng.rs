//! Small deterministic, splittable PRNG (xoshiro256** seeded by splitmix64).
#[derive(Clone, Debug)]
pub struct Rng {
    s: [u64; 4],
}

pub fn splitmix(state: &mut u64) -> u64 {
    *state = state.wrapping_add(0x9E3779B97F4A7C15);
    let mut z = *state;
    z = (z ^ (z >> 30)).wrapping_mul(0xBF58476D1CE4E5B9);
    z = (z ^ (z >> 27)).wrapping_mul(0x94D049BB133111EB);
    z ^ (z >> 31)
}

impl Rng {
    pub fn new(seed: u64) -> Rng {
        let mut st = seed ^ 0xD1B54A32D192ED03;
        let s = [splitmix(&mut st), splitmix(&mut st), splitmix(&mut st), splitmix(&mut st)];
        Rng { s }
    }
    /// derive an independent stream for (label, index)
    pub fn derive(seed: u64, label: &str, index: u64) -> Rng {
        let mut h: u64 = 0xcbf29ce484222325;
        for b in label.bytes() {
            h ^= b as u64;
            h = h.wrapping_mul(0x100000001b3);
        }
        Rng::new(seed.wrapping_mul(0x9E3779B97F4A7C15) ^ h ^ index.wrapping_mul(0xC2B2AE3D27D4EB4F))
    }
    pub fn split(&mut self) -> Rng {
        Rng::new(self.next())
    }
    pub fn next(&mut self) -> u64 {
        let r = self.s[1].wrapping_mul(5).rotate_left(7).wrapping_mul(9);
        let t = self.s[1] << 17;
        self.s[2] ^= self.s[0];
        self.s[3] ^= self.s[1];
        self.s[1] ^= self.s[2];
        self.s[0] ^= self.s[3];
        self.s[2] ^= t;
        self.s[3] = self.s[3].rotate_left(45);
        r
    }
    /// uniform in [0, n)
    pub fn below(&mut self, n: u64) -> u64 {
        if n == 0 { 0 } else { self.next() % n }
    }
    /// uniform in [lo, hi] inclusive
    pub fn range(&mut self, lo: i64, hi: i64) -> i64 {
        if hi <= lo { lo } else { lo + (self.next() % ((hi - lo + 1) as u64)) as i64 }
    }
    pub fn chance(&mut self, num: u64, den: u64) -> bool {
        self.below(den) < num
    }
    pub fn pick<'a, T>(&mut self, v: &'a [T]) -> &'a T {
        &v[self.below(v.len() as u64) as usize]
    }
    pub fn pick_opt<'a, T>(&mut self, v: &'a [T]) -> Option<&'a T> {
        if v.is_empty() { None } else { Some(self.pick(v)) }
    }
    /// weighted choice: returns index
    pub fn weighted(&mut self, w: &[u32]) -> usize {
        let total: u64 = w.iter().map(|x| *x as u64).sum();
        let mut r = self.below(total.max(1));
        for (i, x) in w.iter().enumerate() {
            if r < *x as u64 {
                return i;
            }
            r -= *x as u64;
        }
        w.len() - 1
    }
    pub fn bytes(&mut self, n: usize) -> Vec<u8> {
        let mut v = Vec::with_capacity(n);
        while v.len() < n {
            let x = self.next().to_le_bytes();
            let take = (n - v.len()).min(8);
            v.extend_from_slice(&x[..take]);
        }
        v
    }
    pub fn shuffle<T>(&mut self, v: &mut [T]) {
        for i in (1..v.len()).rev() {
            let j = self.below(i as u64 + 1) as usize;
            v.swap(i, j);
        }
    }
    /// random subset
    pub fn subset<T: Clone>(&mut self, v: &[T], p_num: u64, p_den: u64) -> Vec<T> {
        v.iter().filter(|_| self.chance(p_num, p_den)).cloned().collect()
    }
}
