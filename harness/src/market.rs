//! Shared machinery for the market properties (C06, C07, C08): world, raw-state snapshots,
//! epoch scheduler, workload ops and the oracles (ledger, payments, lifecycle registry).
use crate::framework::*;
use crate::mvm::{Inv, Mvm};
use crate::world::*;
use cid::Cid;
use fil_actor_market::{
    BatchActivateDealsParams, BatchActivateDealsResult, ClientDealProposal, DealProposal, DealState,
    Label, Method as MarketMethod, OnMinerSectorsTerminateParams, PublishStorageDealsParams,
    PublishStorageDealsReturn, SectorDeals, SettleDealPaymentsParams, SettleDealPaymentsReturn,
    State as MarketState, WithdrawBalanceParams, WithdrawBalanceReturn, balance_table::BalanceTable,
};
use fil_actor_miner::{PieceChange, SectorChanges, SectorContentChangedParams, SectorContentChangedReturn};
use fil_actors_runtime::runtime::Policy;
use fil_actors_runtime::test_utils::make_piece_cid;
use fil_actors_runtime::{
    BURNT_FUNDS_ACTOR_ADDR, STORAGE_MARKET_ACTOR_ADDR, STORAGE_POWER_ACTOR_ADDR,
};
use fvm_ipld_bitfield::BitField;
use fvm_ipld_encoding::RawBytes;
use fvm_shared::address::Address;
use fvm_shared::bigint::Zero;
use fvm_shared::clock::{ChainEpoch, EPOCH_UNDEFINED};
use fvm_shared::crypto::signature::{Signature, SignatureType};
use fvm_shared::deal::DealID;
use fvm_shared::econ::TokenAmount;
use fvm_shared::piece::PaddedPieceSize;
use fvm_shared::sector::{RegisteredPoStProof, RegisteredSealProof, SectorNumber};
use fvm_shared::{ActorID, METHOD_SEND};
use std::collections::{BTreeMap, BTreeSet};
use vm_api::VM;

pub const DAY: ChainEpoch = 2880;
pub const MKT: Address = STORAGE_MARKET_ACTOR_ADDR;

#[derive(Clone, Debug)]
pub struct Provider {
    pub miner: Address,
    pub owner: Address,
    pub worker: Address,
}

pub struct MWorld {
    pub v: Mvm,
    pub clients: Vec<Address>,
    pub keys: BTreeMap<Address, Address>,
    pub providers: Vec<Provider>,
    pub strangers: Vec<Address>,
}

pub fn create_miner(v: &Mvm, owner: &Address, worker: &Address, proof: RegisteredPoStProof) -> Address {
    let dep = crate::world::create_miner_deposit(v);
    let p = fil_actor_power::CreateMinerParams {
        owner: *owner,
        worker: *worker,
        window_post_proof_type: proof,
        peer: b"peer".to_vec(),
        multiaddrs: vec![],
    };
    let (r, _) = call(v, owner, &STORAGE_POWER_ACTOR_ADDR, &dep, fil_actor_power::Method::CreateMiner as u64, Some(&p));
    assert!(r.code.is_success(), "create miner failed: {} {}", r.code, r.message);
    let cr: fil_actor_power::CreateMinerReturn = ret(&r).unwrap();
    cr.id_address
}

pub fn market_world(seed: u64, n_clients: usize, n_providers: usize) -> MWorld {
    let v = genesis(Policy::default());
    install_sig_scheme(&v);
    let accts = make_accounts(&v, n_clients + 2 * n_providers + 2, seed, &fil(10_000_000));
    // accounts alternate secp (even) / bls (odd); workers must be BLS
    let bls: Vec<Address> = accts.iter().cloned().enumerate().filter(|(i, _)| i % 2 == 1).map(|x| x.1).collect();
    let secp: Vec<Address> = accts.iter().cloned().enumerate().filter(|(i, _)| i % 2 == 0).map(|x| x.1).collect();
    let mut providers = vec![];
    let mut used = BTreeSet::new();
    for k in 0..n_providers {
        let worker = bls[k];
        let owner = secp[k];
        used.insert(worker);
        used.insert(owner);
        let miner = create_miner(&v, &owner, &worker, RegisteredPoStProof::StackedDRGWindow32GiBV1P1);
        providers.push(Provider { miner, owner, worker });
    }
    let rest: Vec<Address> = accts.iter().cloned().filter(|a| !used.contains(a)).collect();
    let clients = rest[..n_clients].to_vec();
    let strangers = rest[n_clients..].to_vec();
    let keys = accts.iter().map(|a| (*a, key_of(&v, a))).collect();
    v.invs.borrow_mut().clear();
    MWorld { v, clients, keys, providers, strangers }
}

// ---------------------------------------------------------------------------------------------
// raw-state snapshot

#[derive(Clone, Debug, Default)]
pub struct MktSnap {
    pub deals: BTreeMap<DealID, (DealProposal, Option<DealState>)>,
    pub escrow: BTreeMap<Address, TokenAmount>,
    pub locked: BTreeMap<Address, TokenAmount>,
    pub pending: BTreeSet<Cid>,
    pub next_id: DealID,
    pub total_client_collateral: TokenAmount,
    pub total_provider_collateral: TokenAmount,
    pub total_client_fee: TokenAmount,
    pub balance: TokenAmount,
    pub sector_deals: BTreeMap<(ActorID, SectorNumber), Vec<DealID>>,
    pub deal_ops: BTreeMap<ChainEpoch, Vec<DealID>>,
    pub last_cron: ChainEpoch,
    pub burnt: TokenAmount,
}

pub fn snap(v: &Mvm) -> MktSnap {
    let st: MarketState = state(v, &MKT).unwrap();
    let bs = v.store.as_ref();
    let mut s = MktSnap { next_id: st.next_id, last_cron: st.last_cron, ..Default::default() };
    let proposals = st.load_proposals(bs).unwrap();
    let states = st.load_deal_states(bs).unwrap();
    proposals
        .for_each(|i, p| {
            let ds = states.get(i).unwrap().cloned();
            s.deals.insert(i, (p.clone(), ds));
            Ok(())
        })
        .unwrap();
    let esc = BalanceTable::from_root(bs, &st.escrow_table, "escrow").unwrap();
    esc.0
        .for_each(|k, v| {
            s.escrow.insert(k, v.clone());
            Ok(())
        })
        .unwrap();
    let lck = BalanceTable::from_root(bs, &st.locked_table, "locked").unwrap();
    lck.0
        .for_each(|k, v| {
            s.locked.insert(k, v.clone());
            Ok(())
        })
        .unwrap();
    let pend = st.load_pending_deals(bs).unwrap();
    pend.for_each(|c| {
        s.pending.insert(c);
        Ok(())
    })
    .unwrap();
    s.total_client_collateral = st.total_client_locked_collateral.clone();
    s.total_provider_collateral = st.total_provider_locked_collateral.clone();
    s.total_client_fee = st.total_client_storage_fee.clone();
    s.balance = v.balance(&MKT);
    s.burnt = v.balance(&BURNT_FUNDS_ACTOR_ADDR);
    let ps = st.load_provider_sectors(bs).unwrap();
    let mut provs = vec![];
    ps.for_each(|p, root| {
        provs.push((p, *root));
        Ok(())
    })
    .unwrap();
    for (p, root) in provs {
        let sd: fil_actor_market::SectorDealsMap<_> =
            fil_actor_market::SectorDealsMap::load(bs, &root, fil_actor_market::SECTOR_DEALS_CONFIG, "sd").unwrap();
        sd.for_each(|sn, ids| {
            s.sector_deals.insert((p, sn), ids.clone());
            Ok(())
        })
        .unwrap();
    }
    let ops = st.load_deal_ops(bs).unwrap();
    let mut epochs = vec![];
    ops.for_each(|e: ChainEpoch, _| {
        epochs.push(e);
        Ok(())
    })
    .unwrap();
    for e in epochs {
        let mut ids = vec![];
        ops.for_each_in(&e, |id: DealID| {
            ids.push(id);
            Ok(())
        })
        .unwrap();
        s.deal_ops.insert(e, ids);
    }
    s
}

impl MktSnap {
    pub fn esc(&self, a: &Address) -> TokenAmount {
        self.escrow.get(a).cloned().unwrap_or_default()
    }
    pub fn lck(&self, a: &Address) -> TokenAmount {
        self.locked.get(a).cloned().unwrap_or_default()
    }
}

/// paid-through cursor of a deal (clamped to [start, end])
pub fn cursor(p: &DealProposal, s: &Option<DealState>) -> ChainEpoch {
    match s {
        Some(s) if s.last_updated_epoch != EPOCH_UNDEFINED => s.last_updated_epoch.clamp(p.start_epoch, p.end_epoch),
        _ => p.start_epoch,
    }
}

// ---------------------------------------------------------------------------------------------
// epoch scheduler: ticks at every epoch that has scheduled work (market deal ops, power cron
// queue), optionally densely; idle epochs are skipped exactly (nothing is scheduled in them).

pub fn next_work_epoch(v: &Mvm) -> Option<ChainEpoch> {
    let st: MarketState = state(v, &MKT).unwrap();
    let ops = st.load_deal_ops(v.store.as_ref()).unwrap();
    let mut best: Option<ChainEpoch> = None;
    ops.for_each(|e: ChainEpoch, _| {
        if e > st.last_cron && best.is_none_or(|b| e < b) {
            best = Some(e);
        }
        Ok(())
    })
    .unwrap();
    // keys of the power actor's cron queue (outer HAMT only; the per-epoch arrays are not loaded)
    {
        use integer_encoding::VarInt;
        let pst: fil_actor_power::State = state(v, &STORAGE_POWER_ACTOR_ADDR).unwrap();
        let outer = fil_actors_runtime::make_map_with_root_and_bitwidth::<_, Cid>(&pst.cron_event_queue, v.store.as_ref(), fil_actor_power::CRON_QUEUE_HAMT_BITWIDTH).unwrap();
        outer
            .for_each(|k, _| {
                let (e, _) = i64::decode_var(&k.0).unwrap();
                if best.is_none_or(|b| e < b) {
                    best = Some(e);
                }
                Ok(())
            })
            .unwrap();
    }
    best
}

/// the power actor's cron event queue, decoded: epoch -> events
pub fn power_cron_queue(v: &Mvm) -> BTreeMap<ChainEpoch, Vec<fil_actor_power::CronEvent>> {
    use integer_encoding::VarInt;
    let pst: fil_actor_power::State = state(v, &STORAGE_POWER_ACTOR_ADDR).unwrap();
    let q = fil_actors_runtime::Multimap::from_root(
        v.store.as_ref(),
        &pst.cron_event_queue,
        fil_actor_power::CRON_QUEUE_HAMT_BITWIDTH,
        fil_actor_power::CRON_QUEUE_AMT_BITWIDTH,
    )
    .unwrap();
    let mut m: BTreeMap<ChainEpoch, Vec<fil_actor_power::CronEvent>> = BTreeMap::new();
    q.for_all(|k, arr: &fil_actors_runtime::Array<fil_actor_power::CronEvent, _>| {
        let (e, _) = i64::decode_var(&k.0).unwrap();
        let mut evs = vec![];
        arr.for_each(|_, ev| {
            evs.push(ev.clone());
            Ok(())
        })?;
        m.insert(e, evs);
        Ok(())
    })
    .unwrap();
    m
}

/// advance to epoch `to` (messages at `to` then run before the tick of `to`).
/// `each_tick` is called with (epoch of the tick, its invocation record).
pub fn advance(v: &Mvm, to: ChainEpoch, dense: bool, each_tick: &mut dyn FnMut(ChainEpoch, &crate::mvm::Inv, bool)) {
    while v.epoch() < to {
        let e = v.epoch();
        if dense {
            let (r, inv) = v.tick();
            if let Some(i) = inv {
                each_tick(e, &i, r.code.is_success());
            }
            continue;
        }
        match next_work_epoch(v) {
            Some(w) if w < to => {
                if w > e {
                    v.set_epoch(w);
                }
                let at = v.epoch();
                let (r, inv) = v.tick();
                if let Some(i) = inv {
                    each_tick(at, &i, r.code.is_success());
                }
            }
            _ if to - e <= 3000 => {
                // nothing scheduled before `to`: idle epochs are skipped
                v.set_epoch(to);
            }
            _ => {
                // long idle gap: one tick at the last idle epoch keeps `last_cron` adjacent, then jump
                v.set_epoch(to - 1);
                let (r, inv) = v.tick();
                if let Some(i) = inv {
                    each_tick(to - 1, &i, r.code.is_success());
                }
            }
        }
    }
}

// ---------------------------------------------------------------------------------------------
// message builders

pub fn signed(keys: &BTreeMap<Address, Address>, p: &DealProposal, signer: &Address) -> ClientDealProposal {
    let bytes = fil_actors_runtime::cbor::serialize(p, "p").unwrap().to_vec();
    let key = keys.get(signer).cloned().unwrap_or(*signer);
    ClientDealProposal { proposal: p.clone(), client_signature: Signature { sig_type: SignatureType::BLS, bytes: sign(&key, &bytes) } }
}

pub fn publish(v: &Mvm, caller: &Address, deals: Vec<ClientDealProposal>) -> (vm_api::MessageResult, Option<Inv>, Option<PublishStorageDealsReturn>) {
    let (r, inv) = call(v, caller, &MKT, &TokenAmount::zero(), MarketMethod::PublishStorageDeals as u64, Some(&PublishStorageDealsParams { deals }));
    let pr = if r.code.is_success() { ret::<PublishStorageDealsReturn>(&r) } else { None };
    (r, inv, pr)
}

pub fn batch_activate(v: &Mvm, from_miner: &Address, sectors: Vec<SectorDeals>) -> (vm_api::MessageResult, Option<Inv>, Option<BatchActivateDealsResult>) {
    let (r, inv) = call(v, from_miner, &MKT, &TokenAmount::zero(), MarketMethod::BatchActivateDeals as u64, Some(&BatchActivateDealsParams { sectors, compute_cid: false }));
    let br = if r.code.is_success() { ret::<BatchActivateDealsResult>(&r) } else { None };
    (r, inv, br)
}

pub fn content_changed(v: &Mvm, from_miner: &Address, sectors: Vec<SectorChanges>) -> (vm_api::MessageResult, Option<Inv>, Option<SectorContentChangedReturn>) {
    let (r, inv) = call(v, from_miner, &MKT, &TokenAmount::zero(), MarketMethod::SectorContentChangedExported as u64, Some(&SectorContentChangedParams { sectors }));
    let cr = if r.code.is_success() { ret::<SectorContentChangedReturn>(&r) } else { None };
    (r, inv, cr)
}

pub fn settle(v: &Mvm, caller: &Address, ids: &[DealID]) -> (vm_api::MessageResult, Option<Inv>, Option<SettleDealPaymentsReturn>) {
    let mut bf = BitField::new();
    for i in ids {
        bf.set(*i);
    }
    let (r, inv) = call(v, caller, &MKT, &TokenAmount::zero(), MarketMethod::SettleDealPaymentsExported as u64, Some(&SettleDealPaymentsParams { deal_ids: bf }));
    let sr = if r.code.is_success() { ret::<SettleDealPaymentsReturn>(&r) } else { None };
    (r, inv, sr)
}

pub fn terminate(v: &Mvm, from_miner: &Address, epoch: ChainEpoch, sectors: &[SectorNumber]) -> (vm_api::MessageResult, Option<Inv>) {
    let mut bf = BitField::new();
    for s in sectors {
        bf.set(*s);
    }
    call(v, from_miner, &MKT, &TokenAmount::zero(), MarketMethod::OnMinerSectorsTerminate as u64, Some(&OnMinerSectorsTerminateParams { epoch, sectors: bf }))
}

pub fn deal_id_payload(id: DealID) -> RawBytes {
    fil_actors_runtime::cbor::serialize(&id, "deal id").unwrap()
}

/// a proposal with amounts that are unique within a history (ctr drives the low digits)
#[allow(clippy::too_many_arguments)]
pub fn make_proposal(ctr: u64, client: Address, provider: Address, start: ChainEpoch, dur: ChainEpoch, size_log: u32, label: &str) -> DealProposal {
    DealProposal {
        piece_cid: make_piece_cid(format!("piece-{ctr}-{label}").as_bytes()),
        piece_size: PaddedPieceSize(1u64 << size_log),
        verified_deal: false,
        client,
        provider,
        label: Label::String(label.to_string()),
        start_epoch: start,
        end_epoch: start + dur,
        // one deal in seven is free (a zero price is legal)
        storage_price_per_epoch: if ctr % 7 == 3 { TokenAmount::zero() } else { TokenAmount::from_atto(1_000_003u64 + 7919 * ctr) },
        provider_collateral: fil(1) + TokenAmount::from_atto(104_729 * (ctr + 1)),
        client_collateral: TokenAmount::from_atto(15_485_863u64 * (ctr + 1)),
    }
}

// ---------------------------------------------------------------------------------------------
// oracles

/// What the harness knows about each published deal (from its own submissions and observed results)
#[derive(Clone, Debug)]
pub struct KDeal {
    pub proposal: DealProposal,
    pub cid: Cid,
    pub published_at: ChainEpoch,
    pub activated: Option<(ChainEpoch, SectorNumber)>,
    pub activation_reports: u32,
    pub gone_at: Option<ChainEpoch>,
    pub terminated_at: Option<ChainEpoch>,
    /// payments validated so far (sum of price * cursor movement)
    pub paid: TokenAmount,
}

#[derive(Default)]
pub struct Registry {
    pub deals: BTreeMap<DealID, KDeal>,
    pub max_id: Option<DealID>,
    /// proposal cids the harness considers pending: published and not yet (started and processed),
    /// terminated or timed out
    pub pending: BTreeMap<Cid, DealID>,
}

pub fn proposal_cid(v: &Mvm, p: &DealProposal) -> Cid {
    use vm_api::Primitives;
    let data = fil_actors_runtime::cbor::serialize(p, "p").unwrap();
    let h = v.primitives.hash_blake2b(data.bytes());
    Cid::new_v1(fvm_ipld_encoding::DAG_CBOR, multihash_codetable::Multihash::wrap(0xb220, &h).unwrap())
}

/// C06: ledger recomputation from raw state, after every message / tick
pub fn check_ledger(s: &MktSnap, o: &mut Outcome, when: &str) {
    o.count("ledger_checks");
    let mut owed: BTreeMap<Address, TokenAmount> = BTreeMap::new();
    let (mut tcc, mut tpc, mut tfee) = (TokenAmount::zero(), TokenAmount::zero(), TokenAmount::zero());
    for (id, (p, ds)) in &s.deals {
        if let Some(d) = ds
            && d.slash_epoch != EPOCH_UNDEFINED
        {
            o.inconclusive.push(format!("deal {id} present with slash epoch set"));
            continue;
        }
        let c = cursor(p, ds);
        let fee = &p.storage_price_per_epoch * (p.end_epoch - c);
        *owed.entry(p.client).or_default() += &p.client_collateral + &fee;
        *owed.entry(p.provider).or_default() += &p.provider_collateral;
        tcc += &p.client_collateral;
        tpc += &p.provider_collateral;
        tfee += fee;
    }
    let parties: BTreeSet<Address> = s.escrow.keys().chain(s.locked.keys()).chain(owed.keys()).cloned().collect();
    let mut sum_escrow = TokenAmount::zero();
    for a in &parties {
        let l = s.lck(a);
        let e = s.esc(a);
        let w = owed.get(a).cloned().unwrap_or_default();
        sum_escrow += &e;
        o.count("party_ledger_comparisons");
        if l != w {
            o.violate("locked_equals_obligations", "C06/locked_ne_obligations", format!("{when}: party {a} locked {l} but outstanding obligations over unfinished deals are {w}"));
        }
        if l > e {
            o.violate("locked_le_escrow", "C06/locked_gt_escrow", format!("{when}: party {a} locked {l} > escrow {e}"));
        }
        if l.is_negative() || e.is_negative() {
            o.violate("locked_le_escrow", "C06/negative_balance", format!("{when}: party {a} locked {l} escrow {e}"));
        }
    }
    if s.total_client_collateral != tcc || s.total_provider_collateral != tpc || s.total_client_fee != tfee {
        o.violate("market_totals", "C06/totals_ne_sum", format!(
            "{when}: totals (client coll {}, provider coll {}, fee {}) but per-deal sums ({}, {}, {})",
            s.total_client_collateral, s.total_provider_collateral, s.total_client_fee, tcc, tpc, tfee));
    }
    if sum_escrow > s.balance {
        o.violate("market_solvent", "C06/escrow_gt_balance", format!("{when}: sum of escrow {sum_escrow} > market balance {}", s.balance));
    }
}

/// transfers out of the market in an invocation tree that took effect: (to, value)
pub fn market_sends(inv: &Inv) -> Vec<(Address, TokenAmount)> {
    let mut v = vec![];
    for i in inv.effective() {
        if Address::new_id(i.from) == MKT && i.method == METHOD_SEND && !i.value.is_zero() {
            v.push((i.to, i.value.clone()));
        }
    }
    v
}

/// C06: withdrawal semantics
#[allow(clippy::too_many_arguments)]
pub fn check_withdraw(w: &MWorld, before: &MktSnap, caller: &Address, party: &Address, requested: &TokenAmount, r: &vm_api::MessageResult, inv: Option<&Inv>, after: &MktSnap, o: &mut Outcome, step: usize) {
    let prov = w.providers.iter().find(|p| p.miner == *party);
    let allowed: Vec<Address> = match prov {
        Some(p) => vec![p.owner, p.worker],
        None => vec![*party],
    };
    let recipient = prov.map(|p| p.owner).unwrap_or(*party);
    if !r.code.is_success() {
        o.count("withdraw_rejected");
        if before.escrow != after.escrow || before.balance != after.balance {
            o.violate("withdraw", "C06/rejected_withdraw_changed_state", format!("step {step}: failed withdraw changed escrow or balance"));
        }
        return;
    }
    o.count("withdraw_ok");
    if !allowed.contains(caller) {
        o.violate("withdraw", "C06/withdraw_by_other", format!("step {step}: {caller} withdrew from {party}'s escrow (allowed: {:?})", allowed));
    }
    let wr: WithdrawBalanceReturn = ret(r).unwrap();
    let avail = before.esc(party) - before.lck(party);
    let want = std::cmp::min(requested.clone(), avail.clone());
    if wr.amount_withdrawn != want {
        o.violate("withdraw", "C06/withdraw_amount", format!("step {step}: withdrew {} but min(requested {requested}, escrow-locked {avail}) = {want}", wr.amount_withdrawn));
    }
    let sends = inv.map(market_sends).unwrap_or_default();
    let total: TokenAmount = sends.iter().map(|s| s.1.clone()).sum();
    if total != wr.amount_withdrawn || sends.iter().any(|s| s.0 != recipient) {
        o.violate("withdraw", "C06/withdraw_paid_elsewhere", format!("step {step}: market sent {:?}; expected exactly {} to {recipient}", sends, wr.amount_withdrawn));
    }
    if after.esc(party) != before.esc(party) - &wr.amount_withdrawn {
        o.violate("withdraw", "C06/withdraw_escrow_delta", format!("step {step}: escrow of {party} {} -> {} after withdrawing {}", before.esc(party), after.esc(party), wr.amount_withdrawn));
    }
}

/// C07 (+C08): per-message payment accounting between two raw-state snapshots.
/// `terminated`: (provider id, sector) pairs named by successful OnMinerSectorsTerminate calls in
/// this message, with the termination epoch. `ext`: net external escrow change per party
/// (deposits minus withdrawals) observed for this message.
#[allow(clippy::too_many_arguments)]
pub fn check_payments(
    before: &MktSnap,
    after: &MktSnap,
    epoch: ChainEpoch,
    terminated: &BTreeMap<(ActorID, SectorNumber), ChainEpoch>,
    ext: &BTreeMap<Address, TokenAmount>,
    reg: &mut Registry,
    o: &mut Outcome,
    when: &str,
) {
    o.count("payment_checks");
    let mut delta: BTreeMap<Address, TokenAmount> = BTreeMap::new(); // expected escrow change
    let mut burn = TokenAmount::zero();
    for (id, (p, ds_before)) in &before.deals {
        let c0 = cursor(p, ds_before);
        match after.deals.get(id) {
            Some((p2, ds_after)) => {
                if p2 != p {
                    o.violate("proposal_immutable", "C08/proposal_changed", format!("{when}: proposal of deal {id} changed"));
                }
                let c1 = cursor(p, ds_after);
                if c1 < c0 {
                    o.violate("cursor_monotone", "C07/cursor_went_back", format!("{when}: deal {id} paid-through {c0} -> {c1}"));
                }
                if ds_before.is_some() && ds_after.is_none() {
                    o.violate("cursor_monotone", "C07/deal_state_lost", format!("{when}: deal {id} lost its activation state"));
                }
                let pay = &p.storage_price_per_epoch * (c1 - c0).max(0);
                if !pay.is_zero() {
                    o.count("partial_payments_seen");
                    *delta.entry(p.client).or_default() -= &pay;
                    *delta.entry(p.provider).or_default() += &pay;
                    if let Some(k) = reg.deals.get_mut(id) {
                        k.paid += &pay;
                    }
                }
            }
            None => {
                // the deal left the market in this message: decide how, and what it must have paid
                let prov_id = p.provider.id().unwrap();
                let term = ds_before.as_ref().and_then(|d| terminated.get(&(prov_id, d.sector_number)).cloned());
                let k = reg.deals.get_mut(id);
                if ds_before.is_none() {
                    // never activated: legal only at/after start; provider collateral burnt in full
                    o.count("deals_timed_out");
                    if epoch < p.start_epoch {
                        o.violate("removal_legal", "C08/unactivated_deal_removed_before_start", format!("{when}: deal {id} (start {}) removed at epoch {epoch} without activation", p.start_epoch));
                    }
                    *delta.entry(p.provider).or_default() -= &p.provider_collateral;
                    burn += &p.provider_collateral;
                    if let Some(k) = k {
                        k.gone_at = Some(epoch);
                        reg.pending.remove(&k.cid);
                    }
                } else if let Some(te) = term.filter(|te| *te < p.end_epoch) {
                    // early termination at `te`: paid up to te, provider collateral burnt
                    o.count("deals_terminated");
                    let upto = te.clamp(p.start_epoch, p.end_epoch);
                    let pay = &p.storage_price_per_epoch * (upto - c0).max(0);
                    *delta.entry(p.client).or_default() -= &pay;
                    *delta.entry(p.provider).or_default() += &pay - &p.provider_collateral;
                    burn += &p.provider_collateral;
                    if let Some(k) = k {
                        k.paid += &pay;
                        k.gone_at = Some(epoch);
                        k.terminated_at = Some(te);
                        reg.pending.remove(&k.cid);
                        let total = &p.storage_price_per_epoch * (upto - p.start_epoch).max(0);
                        o.count("closed_form_checks");
                        if k.paid != total {
                            o.violate("closed_form", "C07/total_paid_ne_closed_form:terminated", format!("{when}: deal {id} terminated at {te}: validated payments {} but price x (min(end,term)-start) = {total}", k.paid));
                        }
                    }
                } else {
                    // completion: legal only at/after end; paid through end
                    o.count("deals_completed");
                    if epoch < p.end_epoch {
                        o.violate("removal_legal", "C07/active_deal_removed_before_end", format!("{when}: active deal {id} (end {}) removed at epoch {epoch} with no termination of its sector", p.end_epoch));
                    }
                    let pay = &p.storage_price_per_epoch * (p.end_epoch - c0).max(0);
                    *delta.entry(p.client).or_default() -= &pay;
                    *delta.entry(p.provider).or_default() += &pay;
                    if let Some(k) = k {
                        k.paid += &pay;
                        k.gone_at = Some(epoch);
                        reg.pending.remove(&k.cid);
                        let total = &p.storage_price_per_epoch * (p.end_epoch - p.start_epoch);
                        o.count("closed_form_checks");
                        if k.paid != total {
                            o.violate("closed_form", "C07/total_paid_ne_closed_form:completed", format!("{when}: deal {id} completed: validated payments {} but price x duration = {total}", k.paid));
                        }
                    }
                }
            }
        }
    }
    // escrow movements must be exactly: expected payments/slashes + external deposits/withdrawals
    let parties: BTreeSet<Address> = before.escrow.keys().chain(after.escrow.keys()).chain(delta.keys()).chain(ext.keys()).cloned().collect();
    for a in parties {
        let got = after.esc(&a) - before.esc(&a);
        let want = delta.get(&a).cloned().unwrap_or_default() + ext.get(&a).cloned().unwrap_or_default();
        if got != want {
            o.violate("payments_exact", "C07/escrow_delta_ne_payments", format!("{when}: escrow of {a} changed by {got}; deal payments/slashes/deposits account for {want}"));
        }
    }
    let burnt = &after.burnt - &before.burnt;
    if burnt != burn {
        o.violate("burn_exact", "C07/burn_ne_slashed_collateral", format!("{when}: burnt {burnt} but provider collateral to burn is {burn}"));
    }
}

/// sectors terminated by successful OnMinerSectorsTerminate calls in a trace
pub fn terminations_in(inv: &Inv) -> BTreeMap<(ActorID, SectorNumber), ChainEpoch> {
    let mut m = BTreeMap::new();
    for i in inv.effective() {
        if i.to == MKT && i.method == MarketMethod::OnMinerSectorsTerminate as u64 {
            let p: OnMinerSectorsTerminateParams = i.params.as_ref().unwrap().deserialize().unwrap();
            for s in p.sectors.iter() {
                m.insert((i.from, s), p.epoch);
            }
        }
    }
    m
}

pub fn piece_change_for(p: &DealProposal, id: DealID) -> PieceChange {
    PieceChange { data: p.piece_cid, size: p.piece_size, payload: deal_id_payload(id) }
}

pub fn seal_proof() -> RegisteredSealProof {
    RegisteredSealProof::StackedDRG32GiBV1P1
}
