//! Run framework: tiers, parallel history runner, verdict aggregation, evidence and replay files,
//! known-findings matching.
use crate::rng::Rng;
use serde_json::{Value, json};
use std::collections::{BTreeMap, BTreeSet};
use std::panic::{AssertUnwindSafe, catch_unwind};
use std::sync::Mutex;
use std::sync::atomic::{AtomicBool, AtomicU64, Ordering};
use std::time::{Duration, Instant};

#[derive(Clone, Copy, Debug, PartialEq, Eq)]
pub enum Tier {
    Quick,
    Thorough,
}
impl Tier {
    pub fn name(&self) -> &'static str {
        match self {
            Tier::Quick => "quick",
            Tier::Thorough => "thorough",
        }
    }
    pub fn pick<T>(&self, q: T, t: T) -> T {
        match self {
            Tier::Quick => q,
            Tier::Thorough => t,
        }
    }
}

#[derive(Clone, Debug)]
pub struct Cfg {
    pub prop: String,
    pub tier: Tier,
    pub seed: u64,
    pub threads: usize,
    /// when replaying: only this (workload, index)
    pub only: Option<(String, u64)>,
}

#[derive(Clone, Debug)]
pub struct Violation {
    pub oracle: String,
    /// exact signature used for known-findings matching
    pub signature: String,
    pub detail: String,
}

#[derive(Default, Debug)]
pub struct Outcome {
    pub violations: Vec<Violation>,
    pub inconclusive: Vec<String>,
    pub counters: BTreeMap<String, u64>,
    /// distinct abstract things seen (merged as sets)
    pub sets: BTreeMap<String, BTreeSet<String>>,
    pub nontrivial: bool,
    pub shape_hash: u64,
    /// human-readable op log (kept for samples and replays)
    pub log: Vec<String>,
}

impl Outcome {
    pub fn count(&mut self, k: &str) {
        *self.counters.entry(k.to_string()).or_insert(0) += 1;
    }
    pub fn add(&mut self, k: &str, n: u64) {
        *self.counters.entry(k.to_string()).or_insert(0) += n;
    }
    pub fn seen(&mut self, set: &str, item: impl Into<String>) {
        self.sets.entry(set.to_string()).or_default().insert(item.into());
    }
    pub fn violate(&mut self, oracle: &str, signature: impl Into<String>, detail: impl Into<String>) {
        let signature = signature.into();
        // keep one violation per signature per history
        if self.violations.iter().any(|v| v.oracle == oracle && v.signature == signature) {
            return;
        }
        self.violations.push(Violation { oracle: oracle.to_string(), signature, detail: detail.into() });
    }
    pub fn op(&mut self, s: impl Into<String>) {
        if self.log.len() < 4000 {
            self.log.push(s.into());
        }
    }
    pub fn hash_mix(&mut self, x: u64) {
        self.shape_hash = (self.shape_hash ^ x).wrapping_mul(0x100000001b3).rotate_left(17);
    }
    pub fn hash_str(&mut self, s: &str) {
        let mut h: u64 = 0xcbf29ce484222325;
        for b in s.bytes() {
            h ^= b as u64;
            h = h.wrapping_mul(0x100000001b3);
        }
        self.hash_mix(h);
    }
}

pub struct KnownFinding {
    pub property: String,
    pub signature: String,
    pub status: String,
    pub what: String,
}

pub fn load_known_findings() -> Vec<KnownFinding> {
    let p = "/verif/known_findings.json";
    let Ok(s) = std::fs::read_to_string(p) else { return vec![] };
    let v: Value = serde_json::from_str(&s).expect("known_findings.json must be valid JSON");
    let mut out = vec![];
    for e in v["findings"].as_array().cloned().unwrap_or_default() {
        out.push(KnownFinding {
            property: e["property"].as_str().unwrap_or("").to_string(),
            signature: e["signature"].as_str().unwrap_or("").to_string(),
            status: e["status"].as_str().unwrap_or("known").to_string(),
            what: e["what"].as_str().unwrap_or("").to_string(),
        });
    }
    out
}

pub struct Agg {
    pub cfg: Cfg,
    pub start: Instant,
    pub evaluations: u64,
    pub nontrivial_hashes: BTreeSet<u64>,
    pub counters: BTreeMap<String, u64>,
    pub sets: BTreeMap<String, BTreeSet<String>>,
    pub samples: Vec<Value>,
    pub violations: Vec<(String, u64, Violation, Vec<String>)>,
    pub inconclusive: BTreeMap<String, u64>,
    pub harness_errors: Vec<String>,
}

impl Agg {
    pub fn new(cfg: &Cfg) -> Agg {
        Agg {
            cfg: cfg.clone(),
            start: Instant::now(),
            evaluations: 0,
            nontrivial_hashes: BTreeSet::new(),
            counters: BTreeMap::new(),
            sets: BTreeMap::new(),
            samples: vec![],
            violations: vec![],
            inconclusive: BTreeMap::new(),
            harness_errors: vec![],
        }
    }

    pub fn merge(&mut self, workload: &str, index: u64, o: Outcome) {
        self.evaluations += 1;
        if std::env::var("VH_DUMP").ok().as_deref() == Some(&format!("{workload}#{index}")) {
            for l in &o.log {
                println!("  | {l}");
            }
        }
        if o.nontrivial {
            self.nontrivial_hashes.insert(o.shape_hash);
        }
        for (k, v) in &o.counters {
            *self.counters.entry(k.clone()).or_insert(0) += v;
        }
        for (k, v) in &o.sets {
            let e = self.sets.entry(k.clone()).or_default();
            for x in v {
                if e.len() < 5000 {
                    e.insert(x.clone());
                }
            }
        }
        for r in &o.inconclusive {
            *self.inconclusive.entry(r.clone()).or_insert(0) += 1;
        }
        if self.samples.len() < 3 && o.nontrivial {
            let n = o.log.len().min(60);
            self.samples.push(json!({"workload": workload, "index": index, "ops": o.log[..n].to_vec(), "ops_total": o.log.len()}));
        }
        for v in o.violations {
            if self.violations.len() < 200 {
                self.violations.push((workload.to_string(), index, v, o.log.clone()));
            }
        }
    }

    /// run `n` histories of one workload in parallel; `f(index, rng) -> Outcome`
    pub fn run_parallel<F>(&mut self, workload: &str, n: u64, budget: Duration, f: F)
    where
        F: Fn(u64, Rng) -> Outcome + Sync,
    {
        let (lo, hi) = match &self.cfg.only {
            Some((w, i)) if w == workload => (*i, *i + 1),
            Some(_) => return,
            None => (0, n),
        };
        let next = AtomicU64::new(lo);
        let stop = AtomicBool::new(false);
        let results: Mutex<Vec<(u64, Result<Outcome, String>)>> = Mutex::new(vec![]);
        let deadline = Instant::now() + budget;
        let seed = self.cfg.seed;
        let threads = self.cfg.threads.max(1);
        let skipped = AtomicU64::new(0);
        std::thread::scope(|s| {
            for _ in 0..threads {
                s.spawn(|| {
                    loop {
                        let i = next.fetch_add(1, Ordering::SeqCst);
                        if i >= hi {
                            break;
                        }
                        if stop.load(Ordering::SeqCst) || Instant::now() > deadline {
                            skipped.fetch_add(1, Ordering::SeqCst);
                            continue;
                        }
                        let rng = Rng::derive(seed, workload, i);
                        let r = catch_unwind(AssertUnwindSafe(|| f(i, rng)));
                        let r = r.map_err(|p| {
                            if let Some(s) = p.downcast_ref::<String>() {
                                s.clone()
                            } else if let Some(s) = p.downcast_ref::<&str>() {
                                s.to_string()
                            } else {
                                "panic".to_string()
                            }
                        });
                        results.lock().unwrap().push((i, r));
                    }
                });
            }
        });
        let mut rs = results.into_inner().unwrap();
        rs.sort_by_key(|x| x.0);
        for (i, r) in rs {
            match r {
                Ok(o) => self.merge(workload, i, o),
                Err(e) => self.harness_errors.push(format!("{workload}#{i}: harness panic: {e}")),
            }
        }
        let sk = skipped.load(Ordering::SeqCst);
        if sk > 0 {
            *self.inconclusive.entry(format!("{workload}: wall-clock budget reached, histories not run")).or_insert(0) += sk;
        }
    }

    /// a run that observed too little of what its monitors are about is inconclusive, not a pass
    pub fn require(&mut self, counter: &str, min: u64) {
        if self.cfg.only.is_some() {
            return;
        }
        let n = self.counters.get(counter).cloned().unwrap_or(0);
        if n < min {
            self.harness_errors.push(format!("observed too little: {counter} = {n}, at least {min} required for a verdict"));
        }
    }

    /// finish: write evidence + replays, print verdict lines, return the process exit code
    pub fn finish(self, level: &str, rule: &str, min_nontrivial: u64, assumptions: &[&str], extra: Value) -> i32 {
        let wall = self.start.elapsed().as_secs_f64();
        let known = load_known_findings();
        let prop = self.cfg.prop.clone();
        let mut unlisted: Vec<&(String, u64, Violation, Vec<String>)> = vec![];
        let mut known_hit: BTreeMap<String, (String, u64)> = BTreeMap::new();
        for v in &self.violations {
            let sig = &v.2.signature;
            if let Some(k) = known.iter().find(|k| k.property == prop && &k.signature == sig && k.status == "known") {
                let e = known_hit.entry(sig.clone()).or_insert((k.what.clone(), 0));
                e.1 += 1;
            } else {
                unlisted.push(v);
            }
        }
        let replaying = self.cfg.only.is_some();
        // replay files
        let mut lines = vec![];
        let mut seen_sig = BTreeSet::new();
        std::fs::create_dir_all("/verif/replays").ok();
        for (w, i, v, log) in unlisted.iter().map(|x| (&x.0, x.1, &x.2, &x.3)) {
            if !seen_sig.insert(v.signature.clone()) || seen_sig.len() > 10 {
                continue;
            }
            let path = format!("/verif/replays/{}-{}-{}-{}.json", prop, self.cfg.seed, w, i);
            let body = json!({
                "property": prop, "tier": self.cfg.tier.name(), "seed": self.cfg.seed,
                "workload": w, "index": i, "oracle": v.oracle, "signature": v.signature,
                "detail": v.detail, "ops": log,
                "replay_cmd": format!("/verif/check {} --replay {}", prop, path),
            });
            if !replaying {
                std::fs::write(&path, serde_json::to_string_pretty(&body).unwrap()).ok();
            }
            lines.push(format!("VIOLATION property={} replay={}", prop, path));
            println!("  violation oracle={} signature={}\n    {}", v.oracle, v.signature, v.detail.replace('\n', "\n    "));
        }
        for (sig, (what, n)) in &known_hit {
            println!("KNOWN-FINDING: property={} {} [signature={} observed={}x]", prop, what, sig, n);
        }
        let distinct = self.nontrivial_hashes.len() as u64;
        let mut sets_json = serde_json::Map::new();
        for (k, v) in &self.sets {
            let items: Vec<&String> = v.iter().take(40).collect();
            sets_json.insert(k.clone(), json!({"distinct": v.len(), "first": items}));
        }
        let observed_enough = distinct >= min_nontrivial && self.harness_errors.is_empty();
        let mut coverage = json!({
            "evaluations": self.evaluations,
            "distinct_nontrivial": distinct,
            "rule": rule,
            "samples": self.samples,
            "counters": self.counters,
            "distinct_seen": Value::Object(sets_json),
            "inconclusive": self.inconclusive,
            "harness_errors": self.harness_errors,
            "known_findings_observed": known_hit.iter().map(|(k, v)| json!({"signature": k, "count": v.1})).collect::<Vec<_>>(),
            "min_nontrivial_required": min_nontrivial,
        });
        if let (Some(c), Some(e)) = (coverage.as_object_mut(), extra.as_object()) {
            for (k, v) in e {
                c.insert(k.clone(), v.clone());
            }
        }
        let ev = json!({
            "property_id": prop,
            "tier": self.cfg.tier.name(),
            "seed": self.cfg.seed,
            "level": level,
            "coverage": coverage,
            "assumptions": assumptions,
            "wall_s": wall,
            "violations": unlisted.len(),
        });
        if !replaying {
            // VH_EVIDENCE_DIR: runs against a deliberately modified /repo (tools/run_seed.sh) keep their
            // evidence away from the real one
            let dir = std::env::var("VH_EVIDENCE_DIR").unwrap_or_else(|_| "/verif/evidence".to_string());
            std::fs::create_dir_all(&dir).ok();
            std::fs::write(format!("{dir}/{prop}.json"), serde_json::to_string_pretty(&ev).unwrap()).expect("write evidence");
        }
        println!(
            "{} {} seed={} evaluations={} distinct_nontrivial={} violations={} known={} inconclusive={} wall={:.1}s",
            prop, self.cfg.tier.name(), self.cfg.seed, self.evaluations, distinct, unlisted.len(),
            known_hit.len(), self.inconclusive.values().sum::<u64>(), wall
        );
        let mut keys: Vec<_> = self.counters.iter().collect();
        keys.sort();
        for (k, v) in keys {
            println!("    {k} = {v}");
        }
        for (k, v) in &self.sets {
            println!("    distinct {k} = {}", v.len());
        }
        if !unlisted.is_empty() {
            for l in lines {
                println!("{l}");
            }
            return 1;
        }
        for e in &self.harness_errors {
            println!("HARNESS-ERROR: {e}");
        }
        if !self.harness_errors.is_empty() {
            return 2;
        }
        if !observed_enough && !replaying {
            println!("INCONCLUSIVE: only {distinct} distinct non-trivial cases observed (need {min_nontrivial})");
            return 2;
        }
        0
    }
}
