mod chain;
mod evm;
mod evmgen;
mod fees;
mod fidelity;
mod framework;
mod market;
mod miner;
mod minerops;
mod refevm;
mod mvm;
mod props;
mod rng;
mod selftest;
mod verif;
mod world;

use framework::{Cfg, Tier};

fn usage() -> ! {
    eprintln!("usage: vh run <ID> <quick|thorough> | vh replay <ID> <path> | vh selftest");
    std::process::exit(2)
}

fn main() {
    // keep actor panics out of the output; they are recorded by the MVM
    std::panic::set_hook(Box::new(|info| {
        if std::env::var("VH_PANIC_TRACE").is_ok() {
            eprintln!("panic: {info}");
        }
    }));
    let args: Vec<String> = std::env::args().collect();
    if args.len() < 2 {
        usage();
    }
    let seed: u64 = std::env::var("VERIF_SEED").ok().and_then(|s| s.parse().ok()).unwrap_or(1);
    let threads: usize = std::env::var("VERIF_THREADS")
        .ok()
        .and_then(|s| s.parse().ok())
        .unwrap_or_else(|| std::thread::available_parallelism().map(|n| n.get()).unwrap_or(8));
    match args[1].as_str() {
        "run" => {
            if args.len() < 4 {
                usage();
            }
            let tier = match args[3].as_str() {
                "quick" => Tier::Quick,
                "thorough" => Tier::Thorough,
                _ => usage(),
            };
            let cfg = Cfg { prop: args[2].clone(), tier, seed, threads, only: None };
            std::process::exit(props::dispatch(&cfg));
        }
        "selftest" => std::process::exit(selftest::run()),
        "evm-mini" => std::process::exit(props::c18::mini(args[2].parse().unwrap(), args[3].parse().unwrap())),
        "evmrun" => std::process::exit(props::c17::evmrun(&args[2], args.get(3).map(|s| s.as_str()).unwrap_or(""))),
        "evmdiff" => std::process::exit(props::c17::evmdiff(&args[2], args.get(3).map(|s| s.as_str()).unwrap_or(""))),
        "replay" => {
            if args.len() < 4 {
                usage();
            }
            let body = std::fs::read_to_string(&args[3]).expect("read replay file");
            let j: serde_json::Value = serde_json::from_str(&body).expect("replay json");
            let tier = if j["tier"] == "thorough" { Tier::Thorough } else { Tier::Quick };
            let cfg = Cfg {
                prop: j["property"].as_str().unwrap().to_string(),
                tier,
                seed: j["seed"].as_u64().unwrap(),
                threads: 1,
                only: Some((j["workload"].as_str().unwrap().to_string(), j["index"].as_u64().unwrap())),
            };
            std::process::exit(props::dispatch(&cfg));
        }
        _ => usage(),
    }
}
