//! MVM — the monitoring VM.
//!
//! Derived from the repo's `test_vm` (same message semantics: balances, address resolution,
//! auto-creation of accounts/placeholders, read-only propagation, rollback on error, "caller must
//! be validated exactly once") with the additions runtime monitoring needs:
//!   * a rich invocation record (`Inv`) with pre/post balances, validation flag, read-only flag,
//!     full state-tree roots around read-only invocations, and injected-fault marks;
//!   * O(1) snapshots / restore of the whole world;
//!   * fault plans: a chosen nested send is not executed and the caller sees a failure;
//!   * completed primitives: `delete_actor`, workload-driven `verify_consensus_fault`,
//!     a configurable `Policy`;
//!   * panic containment per top-level message.
//! It is harness code, not the system under test. `src/fidelity.rs` keeps it honest against TestVM.

use anyhow::anyhow;
use cid::Cid;
use fil_actor_account::Actor as AccountActor;
use fil_actor_cron::Actor as CronActor;
use fil_actor_datacap::Actor as DataCapActor;
use fil_actor_eam::EamActor;
use fil_actor_ethaccount::EthAccountActor;
use fil_actor_evm::EvmContractActor;
use fil_actor_init::{Actor as InitActor, State as InitState};
use fil_actor_market::Actor as MarketActor;
use fil_actor_miner::Actor as MinerActor;
use fil_actor_multisig::Actor as MultisigActor;
use fil_actor_paych::Actor as PaychActor;
use fil_actor_power::Actor as PowerActor;
use fil_actor_reward::Actor as RewardActor;
use fil_actor_system::Actor as SystemActor;
use fil_actor_verifreg::Actor as VerifregActor;
use fil_actors_runtime::runtime::builtins::Type;
use fil_actors_runtime::runtime::{
    ActorCode, DomainSeparationTag, EMPTY_ARR_CID, MessageInfo, Policy, Primitives, Runtime,
    RuntimePolicy,
};
use fil_actors_runtime::test_blockstores::MemoryBlockstore;
use fil_actors_runtime::test_utils::*;
use fil_actors_runtime::{
    ActorError, DEFAULT_HAMT_CONFIG, INIT_ACTOR_ADDR, Map2, SYSTEM_ACTOR_ID, SendError,
    actor_error,
};
use fvm_ipld_blockstore::Blockstore;
use fvm_ipld_encoding::CborStore;
use fvm_ipld_encoding::ipld_block::IpldBlock;
use fvm_ipld_hamt::{BytesKey, Hamt, Sha256};
use fvm_shared::address::{Address, Payload};
use fvm_shared::bigint::Zero;
use fvm_shared::chainid::ChainID;
use fvm_shared::clock::ChainEpoch;
use fvm_shared::consensus::ConsensusFault;
use fvm_shared::crypto::hash::SupportedHashes;
use fvm_shared::crypto::signature::{
    SECP_PUB_LEN, SECP_SIG_LEN, SECP_SIG_MESSAGE_HASH_SIZE, Signature,
};
use fvm_shared::econ::TokenAmount;
use fvm_shared::error::ExitCode;
use fvm_shared::event::ActorEvent;
use fvm_shared::piece::PieceInfo;
use fvm_shared::randomness::RANDOMNESS_LENGTH;
use fvm_shared::sector::{
    AggregateSealVerifyProofAndInfos, RegisteredSealProof, ReplicaUpdateInfo, SealVerifyInfo,
    WindowPoStVerifyInfo,
};
use fvm_shared::sys::SendFlags;
use fvm_shared::version::NetworkVersion;
use fvm_shared::{ActorID, IPLD_RAW, METHOD_CONSTRUCTOR, METHOD_SEND, MethodNum, Response};
use multihash_codetable::Code;
use serde::Serialize;
use serde::de::DeserializeOwned;
use std::cell::{Cell, RefCell};
use std::collections::{BTreeMap, HashMap};
use std::panic::{AssertUnwindSafe, catch_unwind};
use std::rc::Rc;
use vm_api::trace::{EmittedEvent, InvocationTrace};
use vm_api::util::get_state;
use vm_api::{ActorState, MessageResult, MockPrimitives, VM, VMError, new_actor};

pub const TEST_VM_RAND_ARRAY: [u8; 32] = [
    1u8, 2, 3, 4, 5, 6, 7, 8, 9, 10, 11, 12, 13, 14, 15, 16, 17, 18, 19, 20, 21, 22, 23, 24, 25,
    26, 27, 28, 29, 30, 31, 32,
];
pub const INVALID_POST: &str = "i_am_invalid_post";
pub const INVALID_SEAL: &[u8] = b"i_am_invalid_seal";

/// One invocation (top-level or nested), observed at the callee boundary.
#[derive(Clone, Debug)]
pub struct Inv {
    pub from: ActorID,
    pub to: Address,
    pub to_type: Option<Type>,
    pub value: TokenAmount,
    pub method: MethodNum,
    pub params: Option<IpldBlock>,
    pub exit: ExitCode,
    pub ret: Option<IpldBlock>,
    pub msg: String,
    pub subs: Vec<Inv>,
    pub events: Vec<EmittedEvent>,
    pub read_only: bool,
    pub caller_validated: bool,
    /// true when the fault plan swallowed this send (the callee never ran)
    pub injected: bool,
    pub from_bal_pre: TokenAmount,
    pub to_bal_pre: Option<TokenAmount>,
    pub from_bal_post: TokenAmount,
    pub to_bal_post: Option<TokenAmount>,
    /// state-tree roots around read-only invocations (None otherwise)
    pub root_pre: Option<Cid>,
    pub root_post: Option<Cid>,
}

impl Inv {
    pub fn ok(&self) -> bool {
        self.exit == ExitCode::OK
    }
    pub fn to_id(&self) -> Option<ActorID> {
        self.to.id().ok()
    }
    /// visit self and all descendants (pre-order) with depth
    pub fn walk<'a>(&'a self, f: &mut dyn FnMut(&'a Inv, usize, bool)) {
        self.walk_inner(0, true, f)
    }
    fn walk_inner<'a>(
        &'a self,
        depth: usize,
        ancestors_ok: bool,
        f: &mut dyn FnMut(&'a Inv, usize, bool),
    ) {
        f(self, depth, ancestors_ok);
        let ok = ancestors_ok && self.ok();
        for s in &self.subs {
            s.walk_inner(depth + 1, ok, f);
        }
    }
    /// all invocations that took effect (every ancestor and itself succeeded)
    pub fn effective(&self) -> Vec<&Inv> {
        let mut v = vec![];
        self.walk(&mut |i, _, anc_ok| {
            if anc_ok && i.ok() {
                v.push(i)
            }
        });
        v
    }
    pub fn count(&self) -> usize {
        1 + self.subs.iter().map(|s| s.count()).sum::<usize>()
    }
    pub fn to_trace(&self) -> InvocationTrace {
        InvocationTrace {
            from: self.from,
            to: self.to,
            value: self.value.clone(),
            method: self.method,
            params: self.params.clone(),
            error_number: None,
            exit_code: self.exit,
            return_value: self.ret.clone(),
            subinvocations: self.subs.iter().map(|s| s.to_trace()).collect(),
            events: self.events.clone(),
        }
    }
}

/// A rule of the fault plan: the `nth` (0-based) nested send matching the pattern is swallowed
/// and the caller receives `exit`.
#[derive(Clone, Debug)]
pub struct FaultRule {
    pub from: Option<ActorID>,
    pub to: Option<ActorID>,
    pub method: Option<MethodNum>,
    pub nth: u64,
    pub exit: ExitCode,
    pub seen: Cell<u64>,
    pub fired: Cell<bool>,
}

impl FaultRule {
    pub fn new(
        from: Option<ActorID>,
        to: Option<ActorID>,
        method: Option<MethodNum>,
        nth: u64,
        exit: ExitCode,
    ) -> Self {
        FaultRule { from, to, method, nth, exit, seen: Cell::new(0), fired: Cell::new(false) }
    }
}

#[derive(Clone)]
pub struct Snapshot {
    pub root: Cid,
    pub epoch: ChainEpoch,
    pub circ: TokenAmount,
}

#[derive(Clone, Debug)]
pub struct PanicRecord {
    pub from: Address,
    pub to: Address,
    pub method: MethodNum,
    pub message: String,
}

pub struct Mvm {
    pub primitives: FakePrimitives,
    pub store: Rc<MemoryBlockstore>,
    pub state_root: RefCell<Cid>,
    actors_dirty: RefCell<bool>,
    // None = deleted
    actors_cache: RefCell<HashMap<Address, Option<ActorState>>>,
    /// keys of `actors_cache` changed since the last checkpoint
    dirty_keys: RefCell<Vec<Address>>,
    pub invs: RefCell<Vec<Inv>>,
    network_version: NetworkVersion,
    curr_epoch: RefCell<ChainEpoch>,
    circulating_supply: RefCell<TokenAmount>,
    base_fee: RefCell<TokenAmount>,
    timestamp: RefCell<u64>,
    pub policy: Policy,
    // --- monitoring additions ---
    pub fault_rules: RefCell<Vec<FaultRule>>,
    /// probability (per 2^32) that any nested send is swallowed, with the PRNG state
    pub random_faults: RefCell<Option<(u64, u32)>>,
    pub injected_count: Cell<u64>,
    /// answer of verify_consensus_fault for the next calls (workload driven)
    pub consensus_fault: RefCell<Option<ConsensusFault>>,
    pub panics: RefCell<Vec<PanicRecord>>,
    pub keep_invs: Cell<bool>,
    /// behave like the repo's TestVM, whose emit_event ignores the read-only flag (the FVM kernel
    /// refuses events in read-only mode): with the backstop off, only the actor's own guard decides
    pub lenient_read_only_events: Cell<bool>,
    pub deleted: RefCell<Vec<(ActorID, ChainEpoch)>>,
}

pub fn all_types() -> &'static BTreeMap<Cid, Type> {
    &ACTOR_TYPES
}

impl Mvm {
    pub fn new_bare(policy: Policy) -> Mvm {
        let store = Rc::new(MemoryBlockstore::new());
        let mut actors =
            Hamt::<Rc<MemoryBlockstore>, ActorState, BytesKey, Sha256>::new_with_config(
                Rc::clone(&store),
                DEFAULT_HAMT_CONFIG,
            );
        Mvm {
            primitives: FakePrimitives::default(),
            store,
            state_root: RefCell::new(actors.flush().unwrap()),
            circulating_supply: RefCell::new(TokenAmount::zero()),
            actors_dirty: RefCell::new(false),
            actors_cache: RefCell::new(HashMap::new()),
            dirty_keys: RefCell::new(vec![]),
            network_version: NetworkVersion::V16,
            curr_epoch: RefCell::new(0),
            invs: RefCell::new(vec![]),
            base_fee: RefCell::new(TokenAmount::zero()),
            timestamp: RefCell::new(0),
            policy,
            fault_rules: RefCell::new(vec![]),
            random_faults: RefCell::new(None),
            injected_count: Cell::new(0),
            consensus_fault: RefCell::new(None),
            panics: RefCell::new(vec![]),
            keep_invs: Cell::new(true),
            lenient_read_only_events: Cell::new(false),
            deleted: RefCell::new(vec![]),
        }
    }

    pub fn put_store<S: Serialize>(&self, obj: &S) -> Cid {
        self.store.put_cbor(obj, Code::Blake2b256).unwrap()
    }

    pub fn checkpoint(&self) -> Cid {
        if !*self.actors_dirty.borrow() {
            return *self.state_root.borrow();
        }
        let mut actors =
            Hamt::<Rc<MemoryBlockstore>, ActorState, BytesKey, Sha256>::load_with_config(
                &self.state_root.borrow(),
                Rc::clone(&self.store),
                DEFAULT_HAMT_CONFIG,
            )
            .unwrap();
        let cache = self.actors_cache.borrow();
        for addr in self.dirty_keys.borrow_mut().drain(..) {
            match cache.get(&addr) {
                Some(Some(a)) => {
                    actors.set(addr.to_bytes().into(), a.clone()).unwrap();
                }
                Some(None) => {
                    actors.delete(&BytesKey::from(addr.to_bytes())).unwrap();
                }
                None => {}
            }
        }
        drop(cache);
        self.state_root.replace(actors.flush().unwrap());
        self.actors_dirty.replace(false);
        *self.state_root.borrow()
    }

    pub fn rollback(&self, root: Cid) {
        self.actors_cache.replace(HashMap::new());
        self.dirty_keys.borrow_mut().clear();
        self.state_root.replace(root);
        self.actors_dirty.replace(false);
    }

    pub fn snapshot(&self) -> Snapshot {
        Snapshot {
            root: self.checkpoint(),
            epoch: self.epoch(),
            circ: self.circulating_supply.borrow().clone(),
        }
    }

    pub fn restore(&self, s: &Snapshot) {
        self.rollback(s.root);
        self.curr_epoch.replace(s.epoch);
        self.circulating_supply.replace(s.circ.clone());
    }

    fn actor_map(&self) -> Map2<&MemoryBlockstore, Address, ActorState> {
        Map2::load(self.store.as_ref(), &self.checkpoint(), DEFAULT_HAMT_CONFIG, "actors").unwrap()
    }

    pub fn delete_actor_entry(&self, key: &Address) {
        self.actors_cache.borrow_mut().insert(*key, None);
        self.dirty_keys.borrow_mut().push(*key);
        self.actors_dirty.replace(true);
    }

    pub fn actor_type(&self, id: ActorID) -> Option<Type> {
        self.actor(&Address::new_id(id)).and_then(|a| ACTOR_TYPES.get(&a.code).cloned())
    }

    pub fn total_balance(&self) -> TokenAmount {
        let mut t = TokenAmount::zero();
        self.actor_map()
            .for_each(|_, v| {
                t += &v.balance;
                Ok(())
            })
            .unwrap();
        t
    }

    /// Execute a top-level message, returning the result and the full invocation record.
    pub fn exec(
        &self,
        from: &Address,
        to: &Address,
        value: &TokenAmount,
        method: MethodNum,
        params: Option<IpldBlock>,
    ) -> (MessageResult, Option<Inv>) {
        let from_id = match self.resolve_id_address(from) {
            Some(a) => a,
            None => {
                return (
                    MessageResult {
                        code: ExitCode::SYS_SENDER_INVALID,
                        message: "sender not found".into(),
                        ret: None,
                    },
                    None,
                );
            }
        };
        let mut a = match self.actor(&from_id) {
            Some(a) => a,
            None => {
                return (
                    MessageResult {
                        code: ExitCode::SYS_SENDER_INVALID,
                        message: "sender actor not found".into(),
                        ret: None,
                    },
                    None,
                );
            }
        };
        let pre_root = self.checkpoint();
        let call_seq = a.sequence;
        a.sequence = call_seq + 1;
        if a.code == *PLACEHOLDER_ACTOR_CODE_ID {
            a.code = *ETHACCOUNT_ACTOR_CODE_ID;
        }
        self.set_actor(&from_id, a);
        let prior_root = self.checkpoint();

        let top = TopCtx {
            originator_stable_addr: *from,
            originator_call_seq: call_seq,
            new_actor_addr_count: Rc::new(RefCell::new(0)),
            circ_supply: self.circulating_supply.borrow().clone(),
        };
        let msg = InternalMessage {
            from: from_id.id().unwrap(),
            to: *to,
            value: value.clone(),
            method,
            params,
        };
        let mut new_ctx = InvocationCtx::new(self, top, msg, false);
        let res = catch_unwind(AssertUnwindSafe(|| {
            let res = new_ctx.invoke();
            let inv = new_ctx.gather(&res);
            (res, inv)
        }));
        match res {
            Err(p) => {
                let message = if let Some(s) = p.downcast_ref::<String>() {
                    s.clone()
                } else if let Some(s) = p.downcast_ref::<&str>() {
                    s.to_string()
                } else {
                    "panic".to_string()
                };
                // the whole message is undone, including the nonce bump
                self.rollback(pre_root);
                self.panics.borrow_mut().push(PanicRecord {
                    from: *from,
                    to: *to,
                    method,
                    message: message.clone(),
                });
                (
                    MessageResult {
                        code: ExitCode::SYS_ILLEGAL_INSTRUCTION,
                        message: format!("PANIC: {message}"),
                        ret: None,
                    },
                    None,
                )
            }
            Ok((res, inv)) => {
                if self.keep_invs.get() {
                    self.invs.borrow_mut().push(inv.clone());
                }
                match res {
                    Err(mut ae) => {
                        self.rollback(prior_root);
                        (
                            MessageResult {
                                code: ae.exit_code(),
                                message: ae.msg().to_string(),
                                ret: ae.take_data(),
                            },
                            Some(inv),
                        )
                    }
                    Ok(ret) => {
                        self.checkpoint();
                        (
                            MessageResult { code: ExitCode::OK, message: "OK".to_string(), ret },
                            Some(inv),
                        )
                    }
                }
            }
        }
    }

    /// run the end-of-epoch cron at the current epoch, then move to the next epoch
    pub fn tick(&self) -> (MessageResult, Option<Inv>) {
        let r = self.exec(
            &fil_actors_runtime::SYSTEM_ACTOR_ADDR,
            &fil_actors_runtime::CRON_ACTOR_ADDR,
            &TokenAmount::zero(),
            fil_actor_cron::Method::EpochTick as u64,
            None,
        );
        let e = self.epoch();
        self.set_epoch(e + 1);
        r
    }

    pub fn clear_faults(&self) {
        self.fault_rules.borrow_mut().clear();
        self.random_faults.replace(None);
    }

    fn should_inject(&self, from: ActorID, to: Option<ActorID>, method: MethodNum) -> Option<ExitCode> {
        for r in self.fault_rules.borrow().iter() {
            if r.fired.get() {
                continue;
            }
            if r.from.is_some_and(|f| f != from) {
                continue;
            }
            if r.to.is_some() && r.to != to {
                continue;
            }
            if r.method.is_some_and(|m| m != method) {
                continue;
            }
            let n = r.seen.get();
            r.seen.set(n + 1);
            if n == r.nth {
                r.fired.set(true);
                return Some(r.exit);
            }
        }
        let mut rf = self.random_faults.borrow_mut();
        if let Some((state, prob)) = rf.as_mut() {
            // splitmix64
            *state = state.wrapping_add(0x9E3779B97F4A7C15);
            let mut z = *state;
            z = (z ^ (z >> 30)).wrapping_mul(0xBF58476D1CE4E5B9);
            z = (z ^ (z >> 27)).wrapping_mul(0x94D049BB133111EB);
            z ^= z >> 31;
            if ((z >> 32) as u32) < *prob {
                let codes = [
                    ExitCode::SYS_OUT_OF_GAS,
                    ExitCode::USR_ILLEGAL_STATE,
                    ExitCode::SYS_INSUFFICIENT_FUNDS,
                    ExitCode::USR_FORBIDDEN,
                ];
                return Some(codes[(z & 3) as usize]);
            }
        }
        None
    }
}

impl VM for Mvm {
    fn blockstore(&self) -> &dyn Blockstore {
        self.store.as_ref()
    }

    fn execute_message(
        &self,
        from: &Address,
        to: &Address,
        value: &TokenAmount,
        method: MethodNum,
        params: Option<IpldBlock>,
    ) -> Result<MessageResult, VMError> {
        let (r, _) = self.exec(from, to, value, method, params);
        if r.message.starts_with("PANIC: ") {
            return Err(vm_api::vm_err(&r.message));
        }
        Ok(r)
    }

    fn execute_message_implicit(
        &self,
        from: &Address,
        to: &Address,
        value: &TokenAmount,
        method: MethodNum,
        params: Option<IpldBlock>,
    ) -> Result<MessageResult, VMError> {
        self.execute_message(from, to, value, method, params)
    }

    fn resolve_id_address(&self, address: &Address) -> Option<Address> {
        if let Payload::ID(_) = address.payload() {
            return Some(*address);
        }
        let st: InitState = get_state(self, &INIT_ACTOR_ADDR).unwrap();
        st.resolve_address(&self.store, address).unwrap()
    }

    fn balance(&self, address: &Address) -> TokenAmount {
        self.actor(address).map_or(TokenAmount::zero(), |a| a.balance)
    }

    fn take_invocations(&self) -> Vec<InvocationTrace> {
        self.invs.take().iter().map(|i| i.to_trace()).collect()
    }

    fn actor(&self, address: &Address) -> Option<ActorState> {
        if let Some(act) = self.actors_cache.borrow().get(address) {
            return act.clone();
        }
        let actors = self.actor_map();
        let actor = actors.get(address).unwrap().cloned();
        if let Some(a) = &actor {
            self.actors_cache.borrow_mut().insert(*address, Some(a.clone()));
        }
        actor
    }

    fn set_actor(&self, key: &Address, a: ActorState) {
        self.actors_cache.borrow_mut().insert(*key, Some(a));
        self.dirty_keys.borrow_mut().push(*key);
        self.actors_dirty.replace(true);
    }

    fn primitives(&self) -> &dyn Primitives {
        &self.primitives
    }

    fn actor_manifest(&self) -> BTreeMap<Cid, Type> {
        ACTOR_TYPES.clone()
    }

    fn actor_states(&self) -> BTreeMap<Address, ActorState> {
        let map = self.actor_map();
        let mut tree = BTreeMap::new();
        map.for_each(|k, v| {
            tree.insert(k, v.clone());
            Ok(())
        })
        .unwrap();
        tree
    }

    fn epoch(&self) -> ChainEpoch {
        *self.curr_epoch.borrow()
    }
    fn set_epoch(&self, epoch: ChainEpoch) {
        self.curr_epoch.replace(epoch);
    }
    fn circulating_supply(&self) -> TokenAmount {
        self.circulating_supply.borrow().clone()
    }
    fn set_circulating_supply(&self, supply: TokenAmount) {
        self.circulating_supply.replace(supply);
    }
    fn base_fee(&self) -> TokenAmount {
        self.base_fee.borrow().clone()
    }
    fn set_base_fee(&self, amount: TokenAmount) {
        self.base_fee.replace(amount);
    }
    fn timestamp(&self) -> u64 {
        *self.timestamp.borrow()
    }
    fn set_timestamp(&self, timestamp: u64) {
        self.timestamp.replace(timestamp);
    }
    fn mut_primitives(&self) -> &dyn MockPrimitives {
        &self.primitives
    }
}

#[derive(Clone)]
pub struct TopCtx {
    pub originator_stable_addr: Address,
    pub originator_call_seq: u64,
    pub new_actor_addr_count: Rc<RefCell<u64>>,
    pub circ_supply: TokenAmount,
}

#[derive(Clone, Debug)]
pub struct InternalMessage {
    pub from: ActorID,
    pub to: Address,
    pub value: TokenAmount,
    pub method: MethodNum,
    pub params: Option<IpldBlock>,
}

pub struct InvocationCtx<'invocation> {
    pub v: &'invocation Mvm,
    pub top: TopCtx,
    pub msg: InternalMessage,
    pub allow_side_effects: RefCell<bool>,
    pub caller_validated: RefCell<bool>,
    pub read_only: bool,
    pub subs: RefCell<Vec<Inv>>,
    pub events: RefCell<Vec<EmittedEvent>>,
    // observation
    from_bal_pre: TokenAmount,
    to_bal_pre: Option<TokenAmount>,
    root_pre: Option<Cid>,
    err_msg: RefCell<String>,
}

impl MessageInfo for InvocationCtx<'_> {
    fn nonce(&self) -> u64 {
        self.top.originator_call_seq
    }
    fn caller(&self) -> Address {
        Address::new_id(self.msg.from)
    }
    fn origin(&self) -> Address {
        Address::new_id(self.resolve_address(&self.top.originator_stable_addr).unwrap())
    }
    fn receiver(&self) -> Address {
        self.to()
    }
    fn value_received(&self) -> TokenAmount {
        self.msg.value.clone()
    }
    fn gas_premium(&self) -> TokenAmount {
        TokenAmount::zero()
    }
}

impl<'invocation> InvocationCtx<'invocation> {
    pub fn new(v: &'invocation Mvm, top: TopCtx, msg: InternalMessage, read_only: bool) -> Self {
        let from_bal_pre = v.balance(&Address::new_id(msg.from));
        let to_bal_pre =
            v.resolve_id_address(&msg.to).and_then(|a| v.actor(&a)).map(|a| a.balance);
        InvocationCtx {
            v,
            top,
            msg,
            allow_side_effects: RefCell::new(true),
            caller_validated: RefCell::new(false),
            read_only,
            subs: RefCell::new(vec![]),
            events: RefCell::new(vec![]),
            from_bal_pre,
            to_bal_pre,
            root_pre: None,
            err_msg: RefCell::new(String::new()),
        }
    }

    fn resolve_target(
        &'invocation self,
        target: &Address,
    ) -> Result<(ActorState, Address), ActorError> {
        if let Some(a) = self.v.resolve_id_address(target)
            && let Some(act) = self.v.actor(&a)
        {
            return Ok((act, a));
        }
        // Address does not yet exist, create it
        let is_account = match target.payload() {
            Payload::Secp256k1(_) | Payload::BLS(_) => true,
            Payload::Delegated(da)
                if self.v.actor(&Address::new_id(da.namespace())).is_some() =>
            {
                false
            }
            _ => {
                return Err(ActorError::unchecked(
                    ExitCode::SYS_INVALID_RECEIVER,
                    format!(
                        "cannot create account for address {} type {}",
                        target,
                        target.protocol()
                    ),
                ));
            }
        };
        if self.read_only() {
            return Err(ActorError::unchecked(
                ExitCode::USR_READ_ONLY,
                format!("cannot create actor {target} in read-only mode"),
            ));
        }

        let mut st: InitState = get_state(self.v, &INIT_ACTOR_ADDR).unwrap();
        let (target_id, existing) = st.map_addresses_to_id(&self.v.store, target, None).unwrap();
        assert!(!existing, "should never have existing actor when no f4 address is specified");
        let target_id_addr = Address::new_id(target_id);
        let mut init_actor = self.v.actor(&INIT_ACTOR_ADDR).unwrap();
        init_actor.state = self.v.store.put_cbor(&st, Code::Blake2b256).unwrap();
        self.v.set_actor(&INIT_ACTOR_ADDR, init_actor);

        let new_actor_msg = InternalMessage {
            from: SYSTEM_ACTOR_ID,
            to: target_id_addr,
            value: TokenAmount::zero(),
            method: METHOD_CONSTRUCTOR,
            params: IpldBlock::serialize_cbor(target).unwrap(),
        };
        {
            let mut new_ctx = InvocationCtx::new(self.v, self.top.clone(), new_actor_msg, false);
            if is_account {
                new_ctx.create_actor(*ACCOUNT_ACTOR_CODE_ID, target_id, None).unwrap();
                let res = new_ctx.invoke();
                let inv = new_ctx.gather(&res);
                self.subs.borrow_mut().push(inv);
            } else {
                new_ctx.create_actor(*PLACEHOLDER_ACTOR_CODE_ID, target_id, Some(*target)).unwrap();
            }
        }
        Ok((self.v.actor(&target_id_addr).unwrap(), target_id_addr))
    }

    pub fn gather(&mut self, invoke_result: &Result<Option<IpldBlock>, ActorError>) -> Inv {
        let (ret, code, m) = match invoke_result {
            Ok(rb) => (rb.clone(), ExitCode::OK, String::new()),
            Err(ae) => (ae.clone().take_data(), ae.exit_code(), ae.msg().to_string()),
        };
        let to = match self.v.resolve_id_address(&self.msg.to) {
            Some(a) => a,
            None => self.msg.to,
        };
        let to_act = self.v.actor(&to);
        let root_post = if self.read_only { Some(self.v.checkpoint()) } else { None };
        Inv {
            from: self.msg.from,
            to,
            to_type: to_act.as_ref().and_then(|a| ACTOR_TYPES.get(&a.code).cloned()),
            value: self.msg.value.clone(),
            method: self.msg.method,
            params: self.msg.params.clone(),
            exit: code,
            ret,
            msg: m,
            subs: self.subs.take(),
            events: self.events.take(),
            read_only: self.read_only,
            caller_validated: *self.caller_validated.borrow(),
            injected: false,
            from_bal_pre: self.from_bal_pre.clone(),
            to_bal_pre: self.to_bal_pre.clone(),
            from_bal_post: self.v.balance(&Address::new_id(self.msg.from)),
            to_bal_post: to_act.map(|a| a.balance),
            root_pre: self.root_pre,
            root_post,
        }
    }

    fn to(&'_ self) -> Address {
        self.resolve_target(&self.msg.to).unwrap().1
    }

    pub fn invoke(&mut self) -> Result<Option<IpldBlock>, ActorError> {
        let prior_root = self.v.checkpoint();
        if self.read_only {
            self.root_pre = Some(prior_root);
        }

        // Transfer funds
        let mut from_actor = self.v.actor(&Address::new_id(self.msg.from)).unwrap();
        if !self.msg.value.is_zero() {
            if self.msg.value.is_negative() {
                return Err(ActorError::unchecked(
                    ExitCode::SYS_ASSERTION_FAILED,
                    "attempt to transfer negative value".to_string(),
                ));
            }
            if from_actor.balance < self.msg.value {
                return Err(ActorError::unchecked(
                    ExitCode::SYS_INSUFFICIENT_FUNDS,
                    "insufficient balance to transfer".to_string(),
                ));
            }
            if self.read_only() {
                return Err(ActorError::unchecked(
                    ExitCode::USR_READ_ONLY,
                    "cannot transfer value in read-only mode".to_string(),
                ));
            }
        }

        // Load, deduct, store from actor before loading to actor to handle self-send case
        from_actor.balance -= &self.msg.value;
        self.v.set_actor(&Address::new_id(self.msg.from), from_actor);

        let (mut to_actor, to_addr) = match self.resolve_target(&self.msg.to) {
            Ok(x) => x,
            Err(e) => {
                self.v.rollback(prior_root);
                return Err(e);
            }
        };
        to_actor.balance = &to_actor.balance + &self.msg.value;
        self.v.set_actor(&to_addr, to_actor);

        // Exit early on send
        if self.msg.method == METHOD_SEND {
            return Ok(None);
        }
        self.msg.to = to_addr;

        // call target actor
        let to_actor = self.v.actor(&to_addr).unwrap();
        let params = self.msg.params.clone();
        let typ = match ACTOR_TYPES.get(&to_actor.code) {
            Some(t) => *t,
            None => {
                self.v.rollback(prior_root);
                return Err(ActorError::unchecked(
                    ExitCode::SYS_INVALID_RECEIVER,
                    "target actor is not a builtin".into(),
                ));
            }
        };
        let mut res = match typ {
            Type::Account => AccountActor::invoke_method(self, self.msg.method, params),
            Type::Cron => CronActor::invoke_method(self, self.msg.method, params),
            Type::Init => InitActor::invoke_method(self, self.msg.method, params),
            Type::Market => MarketActor::invoke_method(self, self.msg.method, params),
            Type::Miner => MinerActor::invoke_method(self, self.msg.method, params),
            Type::Multisig => MultisigActor::invoke_method(self, self.msg.method, params),
            Type::System => SystemActor::invoke_method(self, self.msg.method, params),
            Type::Reward => RewardActor::invoke_method(self, self.msg.method, params),
            Type::Power => PowerActor::invoke_method(self, self.msg.method, params),
            Type::PaymentChannel => PaychActor::invoke_method(self, self.msg.method, params),
            Type::VerifiedRegistry => VerifregActor::invoke_method(self, self.msg.method, params),
            Type::DataCap => DataCapActor::invoke_method(self, self.msg.method, params),
            Type::Placeholder => {
                Err(ActorError::unhandled_message("placeholder actors only handle method 0".into()))
            }
            Type::EVM => EvmContractActor::invoke_method(self, self.msg.method, params),
            Type::EAM => EamActor::invoke_method(self, self.msg.method, params),
            Type::EthAccount => EthAccountActor::invoke_method(self, self.msg.method, params),
        };
        if res.is_ok() && !*self.caller_validated.borrow() {
            res = Err(actor_error!(assertion_failed, "failed to validate caller"));
        }
        if let Err(e) = &res {
            self.err_msg.replace(e.msg().to_string());
            self.v.rollback(prior_root)
        };
        res
    }
}

impl Runtime for InvocationCtx<'_> {
    type Blockstore = Rc<MemoryBlockstore>;

    fn create_actor(
        &self,
        code_id: Cid,
        actor_id: ActorID,
        predictable_address: Option<Address>,
    ) -> Result<(), ActorError> {
        match NON_SINGLETON_CODES.get(&code_id) {
            Some(_) => (),
            None => {
                return Err(ActorError::unchecked(
                    ExitCode::SYS_ASSERTION_FAILED,
                    "create_actor called with singleton builtin actor code cid".to_string(),
                ));
            }
        }
        let addr = &Address::new_id(actor_id);
        let actor = match self.v.actor(addr) {
            Some(mut act) if act.code == *PLACEHOLDER_ACTOR_CODE_ID => {
                act.code = code_id;
                act
            }
            None => new_actor(code_id, EMPTY_ARR_CID, 0, TokenAmount::zero(), predictable_address),
            _ => {
                return Err(actor_error!(forbidden;
                    "attempt to create new actor at existing address {}", addr));
            }
        };
        if self.read_only() {
            return Err(ActorError::unchecked(
                ExitCode::USR_READ_ONLY,
                "cannot create actor in read-only mode".into(),
            ));
        }
        self.top.new_actor_addr_count.replace_with(|old| *old + 1);
        self.v.set_actor(addr, actor);
        Ok(())
    }

    fn store(&self) -> &Rc<MemoryBlockstore> {
        &self.v.store
    }

    fn network_version(&self) -> NetworkVersion {
        self.v.network_version
    }

    fn message(&self) -> &dyn MessageInfo {
        self
    }

    fn curr_epoch(&self) -> ChainEpoch {
        self.v.epoch()
    }

    fn chain_id(&self) -> ChainID {
        ChainID::from(0)
    }

    fn validate_immediate_caller_accept_any(&self) -> Result<(), ActorError> {
        if *self.caller_validated.borrow() {
            Err(ActorError::unchecked(
                ExitCode::SYS_ASSERTION_FAILED,
                "caller double validated".to_string(),
            ))
        } else {
            self.caller_validated.replace(true);
            Ok(())
        }
    }

    fn validate_immediate_caller_namespace<I>(
        &self,
        namespace_manager_addresses: I,
    ) -> Result<(), ActorError>
    where
        I: IntoIterator<Item = u64>,
    {
        if *self.caller_validated.borrow() {
            return Err(ActorError::unchecked(
                ExitCode::SYS_ASSERTION_FAILED,
                "caller double validated".to_string(),
            ));
        }
        // NB: TestVM never sets the flag here; the FVM runtime sets it on success. Follow the FVM.
        let managers: Vec<_> = namespace_manager_addresses.into_iter().collect();
        if let Some(delegated) =
            self.lookup_delegated_address(self.message().caller().id().unwrap())
        {
            for id in managers {
                if match delegated.payload() {
                    Payload::Delegated(d) => d.namespace() == id,
                    _ => false,
                } {
                    self.caller_validated.replace(true);
                    return Ok(());
                }
            }
        } else {
            return Err(ActorError::unchecked(
                ExitCode::USR_FORBIDDEN,
                "immediate caller actor expected to have namespace".to_string(),
            ));
        }
        Err(ActorError::unchecked(
            ExitCode::USR_FORBIDDEN,
            "immediate caller actor namespace forbidden".to_string(),
        ))
    }

    fn validate_immediate_caller_is<'a, I>(&self, addresses: I) -> Result<(), ActorError>
    where
        I: IntoIterator<Item = &'a Address>,
    {
        if *self.caller_validated.borrow() {
            return Err(ActorError::unchecked(
                ExitCode::USR_ASSERTION_FAILED,
                "caller double validated".to_string(),
            ));
        }
        for addr in addresses {
            if *addr == Address::new_id(self.msg.from) {
                self.caller_validated.replace(true);
                return Ok(());
            }
        }
        Err(ActorError::unchecked(
            ExitCode::USR_FORBIDDEN,
            "immediate caller address forbidden".to_string(),
        ))
    }

    fn validate_immediate_caller_type<'a, I>(&self, types: I) -> Result<(), ActorError>
    where
        I: IntoIterator<Item = &'a Type>,
    {
        if *self.caller_validated.borrow() {
            return Err(ActorError::unchecked(
                ExitCode::SYS_ASSERTION_FAILED,
                "caller double validated".to_string(),
            ));
        }
        let code = self.v.actor(&Address::new_id(self.msg.from)).unwrap().code;
        if let Some(to_match) = ACTOR_TYPES.get(&code)
            && types.into_iter().any(|t| *t == *to_match)
        {
            self.caller_validated.replace(true);
            return Ok(());
        }
        Err(ActorError::unchecked(
            ExitCode::USR_FORBIDDEN,
            "immediate caller actor type forbidden".to_string(),
        ))
    }

    fn current_balance(&self) -> TokenAmount {
        self.v.actor(&self.to()).unwrap().balance
    }

    fn resolve_address(&self, addr: &Address) -> Option<ActorID> {
        if let Some(normalize_addr) = self.v.resolve_id_address(addr)
            && let &Payload::ID(id) = normalize_addr.payload()
        {
            return Some(id);
        }
        None
    }

    fn get_actor_code_cid(&self, id: &ActorID) -> Option<Cid> {
        self.v.actor(&Address::new_id(*id)).map(|act| act.code)
    }

    fn lookup_delegated_address(&self, id: ActorID) -> Option<Address> {
        self.v.actor(&Address::new_id(id)).and_then(|act| act.delegated_address)
    }

    fn send(
        &self,
        to: &Address,
        method: MethodNum,
        params: Option<IpldBlock>,
        value: TokenAmount,
        _gas_limit: Option<u64>,
        mut send_flags: SendFlags,
    ) -> Result<Response, SendError> {
        // replicate FVM by silently propagating read only flag to subcalls
        if self.read_only() {
            send_flags.set(SendFlags::READ_ONLY, true)
        }

        if !*self.allow_side_effects.borrow() {
            return Ok(Response { exit_code: ExitCode::SYS_ASSERTION_FAILED, return_data: None });
        }

        let from_id = self.resolve_address(&self.to()).unwrap();

        // fault plan
        let to_id = self.v.resolve_id_address(to).and_then(|a| a.id().ok());
        if let Some(code) = self.v.should_inject(from_id, to_id, method) {
            self.v.injected_count.set(self.v.injected_count.get() + 1);
            let bal = self.v.balance(&Address::new_id(from_id));
            let to_bal = to_id.map(|i| self.v.balance(&Address::new_id(i)));
            self.subs.borrow_mut().push(Inv {
                from: from_id,
                to: to_id.map(Address::new_id).unwrap_or(*to),
                to_type: to_id.and_then(|i| self.v.actor_type(i)),
                value,
                method,
                params,
                exit: code,
                ret: None,
                msg: "injected fault".into(),
                subs: vec![],
                events: vec![],
                read_only: send_flags.read_only(),
                caller_validated: false,
                injected: true,
                from_bal_pre: bal.clone(),
                to_bal_pre: to_bal.clone(),
                from_bal_post: bal,
                to_bal_post: to_bal,
                root_pre: None,
                root_post: None,
            });
            return Ok(Response { exit_code: code, return_data: None });
        }

        let new_actor_msg = InternalMessage { from: from_id, to: *to, value, method, params };
        let mut new_ctx =
            InvocationCtx::new(self.v, self.top.clone(), new_actor_msg, send_flags.read_only());
        let res = new_ctx.invoke();
        let inv = new_ctx.gather(&res);
        self.subs.borrow_mut().push(inv);

        Ok(Response {
            exit_code: res.as_ref().err().map(|e| e.exit_code()).unwrap_or(ExitCode::OK),
            return_data: res.unwrap_or_else(|mut e| e.take_data()),
        })
    }

    fn get_randomness_from_tickets(
        &self,
        _personalization: DomainSeparationTag,
        _rand_epoch: ChainEpoch,
        _entropy: &[u8],
    ) -> Result<[u8; RANDOMNESS_LENGTH], ActorError> {
        Ok(TEST_VM_RAND_ARRAY)
    }

    fn get_randomness_from_beacon(
        &self,
        _personalization: DomainSeparationTag,
        _rand_epoch: ChainEpoch,
        _entropy: &[u8],
    ) -> Result<[u8; RANDOMNESS_LENGTH], ActorError> {
        Ok(TEST_VM_RAND_ARRAY)
    }

    fn get_beacon_randomness(
        &self,
        _rand_epoch: ChainEpoch,
    ) -> Result<[u8; RANDOMNESS_LENGTH], ActorError> {
        Ok(TEST_VM_RAND_ARRAY)
    }

    fn get_state_root(&self) -> Result<Cid, ActorError> {
        Ok(self.v.actor(&self.to()).unwrap().state)
    }

    fn set_state_root(&self, root: &Cid) -> Result<(), ActorError> {
        let maybe_act = self.v.actor(&self.to());
        match maybe_act {
            None => Err(ActorError::unchecked(
                ExitCode::SYS_ASSERTION_FAILED,
                "actor does not exist".to_string(),
            )),
            Some(mut act) if !self.read_only() => {
                act.state = *root;
                self.v.set_actor(&self.to(), act);
                Ok(())
            }
            _ => Err(ActorError::unchecked(
                ExitCode::USR_READ_ONLY,
                "actor is read-only".to_string(),
            )),
        }
    }

    fn transaction<S, RT, F>(&self, f: F) -> Result<RT, ActorError>
    where
        S: Serialize + DeserializeOwned,
        F: FnOnce(&mut S, &Self) -> Result<RT, ActorError>,
    {
        let mut st = self.state::<S>()?;
        self.allow_side_effects.replace(false);
        let result = f(&mut st, self);
        self.allow_side_effects.replace(true);
        let ret = result?;
        let mut act = self.v.actor(&self.to()).unwrap();
        act.state = self.v.store.put_cbor(&st, Code::Blake2b256).unwrap();
        if self.read_only {
            return Err(ActorError::unchecked(
                ExitCode::USR_READ_ONLY,
                "actor is read-only".to_string(),
            ));
        }
        self.v.set_actor(&self.to(), act);
        Ok(ret)
    }

    fn new_actor_address(&self) -> Result<Address, ActorError> {
        let mut b = self.top.originator_stable_addr.to_bytes();
        b.extend_from_slice(&self.top.originator_call_seq.to_be_bytes());
        b.extend_from_slice(&self.top.new_actor_addr_count.borrow().to_be_bytes());
        Ok(Address::new_actor(&b))
    }

    fn delete_actor(&self) -> Result<(), ActorError> {
        if !*self.allow_side_effects.borrow() {
            return Err(
                actor_error!(assertion_failed; "delete_actor is not allowed during transaction"),
            );
        }
        if self.read_only {
            return Err(ActorError::unchecked(
                ExitCode::USR_READ_ONLY,
                "cannot delete actor in read-only mode".into(),
            ));
        }
        let me = self.to();
        let act = self.v.actor(&me).unwrap();
        if !act.balance.is_zero() {
            // self_destruct(burn_unspent = false) fails when funds remain
            return Err(actor_error!(illegal_state; "self-destruct with non-zero balance"));
        }
        self.v.delete_actor_entry(&me);
        self.v.deleted.borrow_mut().push((me.id().unwrap(), self.v.epoch()));
        Ok(())
    }

    fn resolve_builtin_actor_type(&self, code_id: &Cid) -> Option<Type> {
        ACTOR_TYPES.get(code_id).cloned()
    }

    fn get_code_cid_for_type(&self, typ: Type) -> Cid {
        ACTOR_CODES.get(&typ).cloned().unwrap()
    }

    fn total_fil_circ_supply(&self) -> TokenAmount {
        self.top.circ_supply.clone()
    }

    fn charge_gas(&self, _name: &'static str, _compute: i64) {}

    fn base_fee(&self) -> TokenAmount {
        TokenAmount::zero()
    }

    fn actor_balance(&self, id: ActorID) -> Option<TokenAmount> {
        self.v.actor(&Address::new_id(id)).map(|act| act.balance)
    }

    fn gas_available(&self) -> u64 {
        u32::MAX.into()
    }

    fn tipset_timestamp(&self) -> u64 {
        0
    }

    fn tipset_cid(&self, _epoch: i64) -> Result<Cid, ActorError> {
        Ok(Cid::new_v1(IPLD_RAW, Multihash::wrap(0, b"faketipset").unwrap()))
    }

    fn emit_event(&self, event: &ActorEvent) -> Result<(), ActorError> {
        if self.read_only && !self.v.lenient_read_only_events.get() {
            // the FVM kernel refuses events in read-only mode
            return Err(ActorError::unchecked(
                ExitCode::USR_READ_ONLY,
                "cannot emit events while read-only".into(),
            ));
        }
        self.events
            .borrow_mut()
            .push(EmittedEvent { emitter: self.msg.to.id().unwrap(), event: event.clone() });
        Ok(())
    }

    fn read_only(&self) -> bool {
        self.read_only
    }
}

impl Primitives for InvocationCtx<'_> {
    fn verify_signature(
        &self,
        signature: &Signature,
        signer: &Address,
        plaintext: &[u8],
    ) -> Result<(), anyhow::Error> {
        self.v.primitives().verify_signature(signature, signer, plaintext)
    }

    fn hash_blake2b(&self, data: &[u8]) -> [u8; 32] {
        self.v.primitives().hash_blake2b(data)
    }

    fn compute_unsealed_sector_cid(
        &self,
        proof_type: RegisteredSealProof,
        pieces: &[PieceInfo],
    ) -> Result<Cid, anyhow::Error> {
        self.v.primitives().compute_unsealed_sector_cid(proof_type, pieces)
    }

    fn hash(&self, hasher: SupportedHashes, data: &[u8]) -> Vec<u8> {
        self.v.primitives().hash(hasher, data)
    }

    fn hash_64(&self, hasher: SupportedHashes, data: &[u8]) -> ([u8; 64], usize) {
        // not FakePrimitives::hash_64: that test double returns the multihash *code* (0x1b = 27 for
        // Keccak-256) as the digest length, which truncates every EVM KECCAK256 to 27 bytes
        use multihash_codetable::MultihashDigest;
        let mh = Code::try_from(hasher as u64).unwrap().digest(data);
        let d = mh.digest();
        let mut buf = [0u8; 64];
        buf[..d.len()].copy_from_slice(d);
        (buf, d.len())
    }

    fn recover_secp_public_key(
        &self,
        hash: &[u8; SECP_SIG_MESSAGE_HASH_SIZE],
        signature: &[u8; SECP_SIG_LEN],
    ) -> Result<[u8; SECP_PUB_LEN], anyhow::Error> {
        self.v.primitives().recover_secp_public_key(hash, signature)
    }

    fn verify_post(&self, verify_info: &WindowPoStVerifyInfo) -> Result<(), anyhow::Error> {
        for proof in &verify_info.proofs {
            if proof.proof_bytes.eq(&INVALID_POST.as_bytes().to_vec()) {
                return Err(anyhow!("invalid proof"));
            }
        }
        Ok(())
    }

    fn verify_consensus_fault(
        &self,
        _h1: &[u8],
        _h2: &[u8],
        _extra: &[u8],
    ) -> Result<Option<ConsensusFault>, anyhow::Error> {
        Ok(self.v.consensus_fault.borrow().clone())
    }

    fn batch_verify_seals(&self, batch: &[SealVerifyInfo]) -> anyhow::Result<Vec<bool>> {
        Ok(batch.iter().map(|b| b.proof != INVALID_SEAL).collect())
    }

    fn verify_aggregate_seals(
        &self,
        aggregate: &AggregateSealVerifyProofAndInfos,
    ) -> Result<(), anyhow::Error> {
        if aggregate.proof == INVALID_SEAL {
            return Err(anyhow!("invalid aggregate"));
        }
        Ok(())
    }

    fn verify_replica_update(&self, replica: &ReplicaUpdateInfo) -> Result<(), anyhow::Error> {
        if replica.proof == INVALID_SEAL {
            return Err(anyhow!("invalid replica proof"));
        }
        self.v.primitives().verify_replica_update(replica)
    }
}

impl RuntimePolicy for InvocationCtx<'_> {
    fn policy(&self) -> &Policy {
        &self.v.policy
    }
}
