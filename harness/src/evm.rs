//! EVM helpers for the harness: a tiny assembler, own Keccak-256 and RLP (independent of the
//! code under test), deployment / invocation / storage access through the real actors.
use crate::mvm::{Inv, Mvm};
use fil_actor_evm::{GetStorageAtParams, GetStorageAtReturn, InvokeContractParams, Method as EvmMethod, State as EvmState};
use fil_actors_evm_shared::address::EthAddress;
use fil_actors_evm_shared::uints::U256;
use fil_actors_runtime::{EAM_ACTOR_ADDR, EAM_ACTOR_ID, SYSTEM_ACTOR_ADDR};
use fvm_ipld_encoding::ipld_block::IpldBlock;
use fvm_ipld_encoding::{BytesDe, BytesSer};
use fvm_shared::ActorID;
use fvm_shared::address::Address;
use fvm_shared::econ::TokenAmount;
use fvm_shared::error::ExitCode;
use num_traits::Zero;
use std::collections::BTreeMap;

// ----------------------------------------------------------------------------------------------
// Keccak-256 (own implementation; Ethereum padding)
const RC: [u64; 24] = [
    0x0000000000000001, 0x0000000000008082, 0x800000000000808a, 0x8000000080008000,
    0x000000000000808b, 0x0000000080000001, 0x8000000080008081, 0x8000000000008009,
    0x000000000000008a, 0x0000000000000088, 0x0000000080008009, 0x000000008000000a,
    0x000000008000808b, 0x800000000000008b, 0x8000000000008089, 0x8000000000008003,
    0x8000000000008002, 0x8000000000000080, 0x000000000000800a, 0x800000008000000a,
    0x8000000080008081, 0x8000000000008080, 0x0000000080000001, 0x8000000080008008,
];
const ROTC: [u32; 24] = [1, 3, 6, 10, 15, 21, 28, 36, 45, 55, 2, 14, 27, 41, 56, 8, 25, 43, 62, 18, 39, 61, 20, 44];
const PILN: [usize; 24] = [10, 7, 11, 17, 18, 3, 5, 16, 8, 21, 24, 4, 15, 23, 19, 13, 12, 2, 20, 14, 22, 9, 6, 1];

fn keccak_f(st: &mut [u64; 25]) {
    for rc in RC.iter() {
        let mut bc = [0u64; 5];
        for i in 0..5 {
            bc[i] = st[i] ^ st[i + 5] ^ st[i + 10] ^ st[i + 15] ^ st[i + 20];
        }
        for i in 0..5 {
            let t = bc[(i + 4) % 5] ^ bc[(i + 1) % 5].rotate_left(1);
            for j in (0..25).step_by(5) {
                st[j + i] ^= t;
            }
        }
        let mut t = st[1];
        for i in 0..24 {
            let j = PILN[i];
            let b = st[j];
            st[j] = t.rotate_left(ROTC[i]);
            t = b;
        }
        for j in (0..25).step_by(5) {
            let mut row = [0u64; 5];
            row.copy_from_slice(&st[j..j + 5]);
            for i in 0..5 {
                st[j + i] ^= (!row[(i + 1) % 5]) & row[(i + 2) % 5];
            }
        }
        st[0] ^= rc;
    }
}

pub fn keccak256(data: &[u8]) -> [u8; 32] {
    const RATE: usize = 136;
    let mut st = [0u64; 25];
    let mut buf = data.to_vec();
    buf.push(0x01);
    while buf.len() % RATE != 0 {
        buf.push(0);
    }
    let l = buf.len();
    buf[l - 1] |= 0x80;
    for block in buf.chunks(RATE) {
        for i in 0..RATE / 8 {
            let mut w = [0u8; 8];
            w.copy_from_slice(&block[i * 8..i * 8 + 8]);
            st[i] ^= u64::from_le_bytes(w);
        }
        keccak_f(&mut st);
    }
    let mut out = [0u8; 32];
    for i in 0..4 {
        out[i * 8..i * 8 + 8].copy_from_slice(&st[i].to_le_bytes());
    }
    out
}

/// keccak(rlp([sender, nonce]))[12..]
pub fn create_address(sender: &[u8; 20], nonce: u64) -> [u8; 20] {
    let mut body = vec![0x94];
    body.extend_from_slice(sender);
    if nonce == 0 {
        body.push(0x80);
    } else if nonce < 0x80 {
        body.push(nonce as u8);
    } else {
        let be: Vec<u8> = nonce.to_be_bytes().iter().skip_while(|b| **b == 0).cloned().collect();
        body.push(0x80 + be.len() as u8);
        body.extend_from_slice(&be);
    }
    let mut rlp = vec![0xc0 + body.len() as u8];
    rlp.extend_from_slice(&body);
    let h = keccak256(&rlp);
    h[12..].try_into().unwrap()
}

/// keccak(0xff ++ sender ++ salt ++ keccak(init))[12..]
pub fn create2_address(sender: &[u8; 20], salt: &[u8; 32], init: &[u8]) -> [u8; 20] {
    let mut b = vec![0xff];
    b.extend_from_slice(sender);
    b.extend_from_slice(salt);
    b.extend_from_slice(&keccak256(init));
    keccak256(&b)[12..].try_into().unwrap()
}

pub fn is_reserved_eth(a: &[u8; 20]) -> bool {
    let null = a.iter().all(|b| *b == 0);
    let id_embed = a[0] == 0xff && a[1..12].iter().all(|b| *b == 0);
    let precompile = (a[0] == 0xfe || a[0] == 0x00) && a[1..19].iter().all(|b| *b == 0);
    null || id_embed || precompile
}

// ----------------------------------------------------------------------------------------------
// assembler
#[derive(Default, Clone)]
pub struct Asm {
    pub code: Vec<u8>,
    labels: BTreeMap<String, usize>,
    fixups: Vec<(usize, String)>,
}

pub mod op {
    pub const STOP: u8 = 0x00; pub const ADD: u8 = 0x01; pub const MUL: u8 = 0x02; pub const SUB: u8 = 0x03;
    pub const DIV: u8 = 0x04; pub const SDIV: u8 = 0x05; pub const MOD: u8 = 0x06; pub const SMOD: u8 = 0x07;
    pub const ADDMOD: u8 = 0x08; pub const MULMOD: u8 = 0x09; pub const EXP: u8 = 0x0a; pub const SIGNEXTEND: u8 = 0x0b;
    pub const LT: u8 = 0x10; pub const GT: u8 = 0x11; pub const SLT: u8 = 0x12; pub const SGT: u8 = 0x13;
    pub const EQ: u8 = 0x14; pub const ISZERO: u8 = 0x15; pub const AND: u8 = 0x16; pub const OR: u8 = 0x17;
    pub const XOR: u8 = 0x18; pub const NOT: u8 = 0x19; pub const BYTE: u8 = 0x1a; pub const SHL: u8 = 0x1b;
    pub const SHR: u8 = 0x1c; pub const SAR: u8 = 0x1d; pub const CLZ: u8 = 0x1e; pub const KECCAK256: u8 = 0x20;
    pub const ADDRESS: u8 = 0x30; pub const BALANCE: u8 = 0x31; pub const ORIGIN: u8 = 0x32; pub const CALLER: u8 = 0x33;
    pub const CALLVALUE: u8 = 0x34; pub const CALLDATALOAD: u8 = 0x35; pub const CALLDATASIZE: u8 = 0x36;
    pub const CALLDATACOPY: u8 = 0x37; pub const CODESIZE: u8 = 0x38; pub const CODECOPY: u8 = 0x39;
    pub const RETURNDATASIZE: u8 = 0x3d; pub const RETURNDATACOPY: u8 = 0x3e; pub const SELFBALANCE: u8 = 0x47;
    pub const POP: u8 = 0x50; pub const MLOAD: u8 = 0x51; pub const MSTORE: u8 = 0x52; pub const MSTORE8: u8 = 0x53;
    pub const SLOAD: u8 = 0x54; pub const SSTORE: u8 = 0x55; pub const JUMP: u8 = 0x56; pub const JUMPI: u8 = 0x57;
    pub const PC: u8 = 0x58; pub const MSIZE: u8 = 0x59; pub const GAS: u8 = 0x5a; pub const JUMPDEST: u8 = 0x5b;
    pub const TLOAD: u8 = 0x5c; pub const TSTORE: u8 = 0x5d; pub const MCOPY: u8 = 0x5e; pub const PUSH0: u8 = 0x5f;
    pub const PUSH1: u8 = 0x60; pub const PUSH32: u8 = 0x7f; pub const DUP1: u8 = 0x80; pub const SWAP1: u8 = 0x90;
    pub const LOG0: u8 = 0xa0; pub const CREATE: u8 = 0xf0; pub const CALL: u8 = 0xf1; pub const RETURN: u8 = 0xf3;
    pub const DELEGATECALL: u8 = 0xf4; pub const CREATE2: u8 = 0xf5; pub const STATICCALL: u8 = 0xfa;
    pub const REVERT: u8 = 0xfd; pub const INVALID: u8 = 0xfe; pub const SELFDESTRUCT: u8 = 0xff;
}

impl Asm {
    pub fn new() -> Asm {
        Asm::default()
    }
    pub fn op(&mut self, o: u8) -> &mut Self {
        self.code.push(o);
        self
    }
    pub fn ops(&mut self, o: &[u8]) -> &mut Self {
        self.code.extend_from_slice(o);
        self
    }
    /// minimal-width push of an integer
    pub fn push(&mut self, v: u64) -> &mut Self {
        if v == 0 {
            self.code.push(op::PUSH0);
            return self;
        }
        let be: Vec<u8> = v.to_be_bytes().iter().skip_while(|b| **b == 0).cloned().collect();
        self.code.push(op::PUSH1 + be.len() as u8 - 1);
        self.code.extend_from_slice(&be);
        self
    }
    /// push raw bytes (1..=32) as one PUSHn
    pub fn push_bytes(&mut self, b: &[u8]) -> &mut Self {
        assert!(!b.is_empty() && b.len() <= 32);
        self.code.push(op::PUSH1 + b.len() as u8 - 1);
        self.code.extend_from_slice(b);
        self
    }
    pub fn push_label(&mut self, l: &str) -> &mut Self {
        self.code.push(op::PUSH1 + 1);
        self.fixups.push((self.code.len(), l.to_string()));
        self.code.extend_from_slice(&[0, 0]);
        self
    }
    pub fn label(&mut self, l: &str) -> &mut Self {
        self.labels.insert(l.to_string(), self.code.len());
        self.code.push(op::JUMPDEST);
        self
    }
    pub fn finish(mut self) -> Vec<u8> {
        for (pos, l) in &self.fixups {
            let t = *self.labels.get(l).unwrap_or_else(|| panic!("label {l}"));
            self.code[*pos] = (t >> 8) as u8;
            self.code[*pos + 1] = t as u8;
        }
        self.code
    }
}

/// init code that returns `runtime` as the contract's code
pub fn initcode_for(runtime: &[u8]) -> Vec<u8> {
    let mut a = Asm::new();
    // size, offset(of runtime in code), dest 0
    let hdr_len = 1 + 2 + 1 + 2 + 1 + 1 + 1 + 2 + 1 + 1; // computed below; keep PUSH2 everywhere
    a.op(op::PUSH1 + 1).ops(&(runtime.len() as u16).to_be_bytes()); // size
    a.op(op::DUP1);
    a.op(op::PUSH1 + 1).ops(&(hdr_len as u16).to_be_bytes()); // offset
    a.op(op::PUSH0);
    a.op(op::CODECOPY);
    a.op(op::PUSH0);
    a.op(op::RETURN);
    let mut c = a.finish();
    // pad to hdr_len (so the offset constant is right)
    assert!(c.len() <= hdr_len);
    while c.len() < hdr_len {
        c.push(op::STOP);
    }
    c.extend_from_slice(runtime);
    c
}

// ----------------------------------------------------------------------------------------------
// actor-level helpers

pub fn eth_of(v: &Mvm, id: ActorID) -> Option<[u8; 20]> {
    use vm_api::VM;
    let a = v.actor(&Address::new_id(id))?;
    match a.delegated_address?.payload() {
        fvm_shared::address::Payload::Delegated(d) if d.namespace() == EAM_ACTOR_ID => d.subaddress().try_into().ok(),
        _ => None,
    }
}

pub fn f4(eth: &[u8; 20]) -> Address {
    Address::new_delegated(EAM_ACTOR_ID, eth).unwrap()
}

#[derive(Debug, Clone)]
pub struct Deployed {
    pub id: ActorID,
    pub eth: [u8; 20],
}

/// deploy through EAM.CreateExternal from an account / ethaccount
pub fn deploy(v: &Mvm, from: &Address, initcode: &[u8], value: &TokenAmount) -> (Result<Deployed, ExitCode>, Option<Inv>) {
    let params = fil_actor_eam::CreateExternalParams(initcode.to_vec());
    let (r, inv) = v.exec(from, &EAM_ACTOR_ADDR, value, fil_actor_eam::Method::CreateExternal as u64, IpldBlock::serialize_cbor(&params).unwrap());
    if !r.code.is_success() {
        return (Err(r.code), inv);
    }
    let ret: fil_actor_eam::Return = r.ret.unwrap().deserialize().unwrap();
    (Ok(Deployed { id: ret.actor_id, eth: ret.eth_address.0 }), inv)
}

#[derive(Debug, Clone)]
pub struct CallResult {
    pub code: ExitCode,
    /// return data on success, revert data on revert (33), empty otherwise
    pub data: Vec<u8>,
    pub panicked: bool,
}

pub fn invoke(v: &Mvm, from: &Address, contract: &Address, calldata: &[u8], value: &TokenAmount) -> (CallResult, Option<Inv>) {
    let params = InvokeContractParams { input_data: calldata.to_vec() };
    let (r, inv) = v.exec(from, contract, value, EvmMethod::InvokeContract as u64, IpldBlock::serialize_cbor(&params).unwrap());
    let panicked = r.message.starts_with("PANIC: ");
    let data = match &r.ret {
        Some(b) => b.deserialize::<BytesDe>().map(|b| b.0).unwrap_or_else(|_| b.data.clone()),
        None => vec![],
    };
    (CallResult { code: r.code, data, panicked }, inv)
}

pub fn storage_at(v: &Mvm, contract: &Address, key: &[u8; 32]) -> Option<[u8; 32]> {
    let params = GetStorageAtParams { storage_key: U256::from_big_endian(key) };
    let keep = v.keep_invs.replace(false);
    let (r, _) = v.exec(&SYSTEM_ACTOR_ADDR, contract, &TokenAmount::zero(), EvmMethod::GetStorageAt as u64, IpldBlock::serialize_cbor(&params).unwrap());
    v.keep_invs.set(keep);
    if !r.code.is_success() {
        return None;
    }
    let ret: GetStorageAtReturn = r.ret?.deserialize().ok()?;
    Some(ret.storage.to_big_endian())
}

pub fn evm_state(v: &Mvm, id: ActorID) -> Option<EvmState> {
    crate::world::state(v, &Address::new_id(id))
}

pub fn bytes_ser(b: &[u8]) -> Option<IpldBlock> {
    IpldBlock::serialize_cbor(&BytesSer(b)).unwrap()
}

pub fn word(n: u64) -> [u8; 32] {
    let mut w = [0u8; 32];
    w[24..].copy_from_slice(&n.to_be_bytes());
    w
}

pub fn addr_word(a: &[u8; 20]) -> [u8; 32] {
    let mut w = [0u8; 32];
    w[12..].copy_from_slice(a);
    w
}

pub fn eth_address(a: &[u8; 20]) -> EthAddress {
    EthAddress(*a)
}

pub fn is_zero(t: &TokenAmount) -> bool {
    t.is_zero()
}
