//! C14 (vesting schedule, withdrawals) and C15 (faults and terminations are paid for) monitors.
//! Fee magnitudes are recomputed from the protocol definitions with floating-point arithmetic
//! (independent of the actors' Q.128 fixed point) and compared within a tolerance.
use crate::chain::send_to_burn;
use crate::framework::Outcome;
use crate::market::DAY;
use crate::miner::{MinerSnap, sector_power};
use crate::mvm::Inv;
use fil_actor_miner::{DeferredCronEventParams, Method as MinerMethod, WithdrawBalanceReturn};
use fil_actors_runtime::reward::FilterEstimate;
use fvm_shared::address::Address;
use fvm_shared::bigint::{BigInt, Zero};
use fvm_shared::clock::ChainEpoch;
use fvm_shared::econ::TokenAmount;
use num_traits::{Signed, ToPrimitive};
use std::collections::{BTreeMap, BTreeSet};

fn q128_to_f64(x: &BigInt) -> f64 {
    // value / 2^128
    let hi: BigInt = x >> 64u32;
    hi.to_f64().unwrap_or(0.0) / 18446744073709551616.0
}

/// BR(t, period) for `qa` bytes of power: sum over the period of estimated reward / estimated power
pub fn expected_reward(reward: &FilterEstimate, power: &FilterEstimate, qa: &BigInt, period: i64) -> f64 {
    let (rp, rv) = (q128_to_f64(&reward.position), q128_to_f64(&reward.velocity));
    let (pp, pv) = (q128_to_f64(&power.position), q128_to_f64(&power.velocity));
    if pp <= 0.0 {
        return rp;
    }
    let mut s = 0.0f64;
    for k in 0..period {
        let den = pp + pv * k as f64;
        if den > 0.0 {
            s += (rp + rv * k as f64) / den;
        }
    }
    s * qa.to_f64().unwrap_or(0.0)
}

pub const CONTINUED_FAULT_PERIOD: i64 = DAY * 351 / 100;

fn atto_f64(t: &TokenAmount) -> f64 {
    t.atto().to_f64().unwrap_or(0.0)
}

fn pledge_bearing(m: &MinerSnap) -> BTreeSet<u64> {
    let mut b = BTreeSet::new();
    for d in &m.deadlines {
        for p in &d.partitions {
            b.extend(p.live());
            for s in p.early_terminated.values() {
                b.extend(s.iter().cloned());
            }
        }
    }
    b
}

/// lower bound of the termination fee of one sector from its pledge and age (FIP-0098, without
/// the fault-fee floor, which can only raise it)
fn term_fee_floor(pledge: &TokenAmount, age: ChainEpoch) -> TokenAmount {
    let simple = TokenAmount::from_atto((pledge.atto() * 85) / 1000);
    let by_age = TokenAmount::from_atto((simple.atto() * age.max(0)) / (140 * DAY));
    let base = std::cmp::min(simple, by_age);
    let min_abs = TokenAmount::from_atto((pledge.atto() * 2) / 100);
    std::cmp::max(base, min_abs)
}

#[derive(Default)]
pub struct Fees {
    /// C14: (miner, lock epoch, amount) of every observed lock event
    pub locks: Vec<(u64, ChainEpoch, TokenAmount)>,
    /// cumulative amounts burnt by each miner (upper bound of penalties paid out of vesting funds)
    pub burnt_by: BTreeMap<u64, TokenAmount>,
}

impl Fees {
    pub fn note_creation(&mut self, miner: u64, epoch: ChainEpoch, deposit: &TokenAmount) {
        self.locks.push((miner, epoch, deposit.clone()));
    }

    /// Judge one top-level message addressed to (or affecting) a miner.
    #[allow(clippy::too_many_arguments)]
    pub fn on_message(&mut self, pre: &MinerSnap, post: &MinerSnap, inv: &Inv, ok: bool, epoch: ChainEpoch, o: &mut Outcome, when: &str) {
        let miner = pre.id;
        let maddr = Address::new_id(miner);
        // burns and transfers out of this miner in this message
        let mut burnt = TokenAmount::zero();
        let mut received = TokenAmount::zero();
        let mut out_other: Vec<(Address, TokenAmount)> = vec![];
        for i in inv.effective() {
            if Address::new_id(i.from) == maddr && !i.value.is_zero() {
                if i.to == fil_actors_runtime::BURNT_FUNDS_ACTOR_ADDR {
                    burnt += &i.value;
                } else {
                    out_other.push((i.to, i.value.clone()));
                }
            }
            if i.to == maddr && !i.value.is_zero() && i.from != fil_actors_runtime::REWARD_ACTOR_ID {
                received += &i.value;
            }
        }
        *self.burnt_by.entry(miner).or_default() += &burnt;
        if !ok {
            return;
        }
        let top_to_miner = inv.to == maddr;
        let method = inv.method;
        let is = |m: MinerMethod| top_to_miner && method == m as u64;
        if is(MinerMethod::ReportConsensusFault) || is(MinerMethod::DisputeWindowedPoSt) {
            // the reporter's share is part of the penalty the miner pays
            let paid: TokenAmount = out_other.iter().map(|x| x.1.clone()).sum();
            *self.burnt_by.entry(miner).or_default() += paid;
        }
        // ---- C15: fee debt gates withdrawals, pre-commits and recovery declarations
        if pre.fee_debt.is_positive() && (is(MinerMethod::WithdrawBalance) || is(MinerMethod::WithdrawBalanceExported) || is(MinerMethod::PreCommitSectorBatch2) || is(MinerMethod::DeclareFaultsRecovered)) {
            o.count("debt_gate_checks");
            if post.fee_debt.is_positive() || burnt < pre.fee_debt {
                o.violate("debt_gates", "C15/gated_method_succeeded_with_debt_unpaid", format!("{when}: miner {miner} method {method} succeeded with fee debt {} -> {} and only {burnt} burnt", pre.fee_debt, post.fee_debt));
            }
        }
        if post.fee_debt.is_negative() {
            o.violate("penalties_nonnegative", "C15/negative_fee_debt", format!("{when}: miner {miner} fee debt {}", post.fee_debt));
        }
        // ---- C15: early terminations processed in this message are charged at least the floor
        let gone: Vec<u64> = pledge_bearing(pre).difference(&pledge_bearing(post)).cloned().collect();
        let mut floor = TokenAmount::zero();
        let mut n_early = 0;
        for s in &gone {
            if let Some(info) = pre.sectors.get(s)
                && info.expiration > epoch
            {
                // left before its expiration: an early termination whose fee was settled now
                floor += term_fee_floor(&info.initial_pledge, epoch - info.activation);
                n_early += 1;
            }
        }
        if n_early > 0 {
            o.add("early_terminations_settled", n_early);
            let charged = &burnt + (&post.fee_debt - &pre.fee_debt);
            if charged < floor {
                o.violate("termination_fee", "C15/termination_fee_below_floor", format!("{when}: miner {miner}: {n_early} early-terminated sectors {:?} settled; burnt {burnt} + debt change {} = {charged} is below the pledge-based floor {floor}", gone, &post.fee_debt - &pre.fee_debt));
            }
        }
        // ---- C15: penalties never flow to the miner: a message that burns the miner's funds
        // must not also pay the miner (rewards are paid by the reward actor in their own message)
        if burnt.is_positive() && received.is_positive() && !is(MinerMethod::ApplyRewards) && inv.from != fil_actors_runtime::REWARD_ACTOR_ID && inv.method != fvm_shared::METHOD_SEND {
            // funds attached by the caller (e.g. RepayDebt with value) are fine; value from other actors is not
            if received > inv.value {
                o.violate("not_to_miner", "C15/value_flowed_to_penalised_miner", format!("{when}: miner {miner} burnt {burnt} and received {received} in the same message"));
            }
        }
        // ---- C14: withdrawals
        if is(MinerMethod::WithdrawBalance) || is(MinerMethod::WithdrawBalanceExported) {
            o.count("withdrawals_checked");
            let caller = Address::new_id(inv.from);
            let wr: Option<WithdrawBalanceReturn> = inv.ret.as_ref().and_then(|r| r.deserialize().ok());
            let amt = wr.map(|w| w.amount_withdrawn).unwrap_or_default();
            if caller != pre.info.owner && caller != pre.info.beneficiary {
                o.violate("withdraw_caller", "C14/withdraw_by_other", format!("{when}: miner {miner} withdrawal by {caller} (owner {}, beneficiary {})", pre.info.owner, pre.info.beneficiary));
            }
            if !pre.early_terminations.is_empty() {
                o.violate("withdraw_blocked", "C14/withdraw_with_unprocessed_early_terminations", format!("{when}: miner {miner} withdrew while deadlines {:?} have unprocessed early terminations", pre.early_terminations));
            }
            let total_out: TokenAmount = out_other.iter().map(|x| x.1.clone()).sum();
            if total_out != amt || out_other.iter().any(|x| x.0 != pre.info.beneficiary) {
                o.violate("withdraw_to_beneficiary", "C14/withdraw_paid_elsewhere", format!("{when}: miner {miner} reported {amt} withdrawn; transfers out {:?}; beneficiary {}", out_other, pre.info.beneficiary));
            }
            // never touches collateral: what is left covers every ledger; debt fully repaid
            let need = &post.pre_commit_deposits + &post.locked_funds + &post.initial_pledge;
            if post.balance < need {
                o.violate("withdraw_leaves_collateral", "C14/withdraw_touched_collateral", format!("{when}: miner {miner} balance after withdrawal {} < deposits+vesting+pledge {need}", post.balance));
            }
            if post.fee_debt.is_positive() {
                o.violate("withdraw_repays_debt", "C14/withdraw_left_fee_debt", format!("{when}: miner {miner} withdrew {amt} but fee debt {} remains", post.fee_debt));
            }
            // available before = balance - ledgers(after vesting) - debt
            let avail = &pre.balance - &post.pre_commit_deposits - &post.locked_funds - &post.initial_pledge - &pre.fee_debt;
            if amt > avail && amt.is_positive() {
                o.violate("withdraw_amount", "C14/withdrew_more_than_available", format!("{when}: miner {miner} withdrew {amt} but only {avail} was available (balance {} - deposits {} - vesting {} - pledge {} - debt {})", pre.balance, post.pre_commit_deposits, post.locked_funds, post.initial_pledge, pre.fee_debt));
            }
            if pre.info.beneficiary != pre.info.owner {
                let (quota, used, exp) = (&pre.info.term.0, &pre.info.term.1, pre.info.term.2);
                if amt.is_positive() && (epoch >= exp || &(used + &amt) > quota) {
                    o.violate("withdraw_quota", "C14/withdraw_beyond_quota_or_expiry", format!("{when}: miner {miner} withdrew {amt} for beneficiary with quota {quota} used {used} expiring {exp} at epoch {epoch}"));
                }
                if post.info.beneficiary == pre.info.beneficiary && &post.info.term.1 - used != amt {
                    o.violate("withdraw_quota", "C14/used_quota_delta_ne_amount", format!("{when}: miner {miner} used quota {used} -> {} after withdrawing {amt}", post.info.term.1));
                }
            }
        }
        // ---- C14: lock events (75% of a reward)
        if is(MinerMethod::ApplyRewards) {
            if let Some(p) = inv.params.as_ref().and_then(|p| p.deserialize::<fil_actor_miner::ApplyRewardParams>().ok()) {
                let lock = TokenAmount::from_atto((p.reward.atto() * 75) / 100);
                if lock.is_positive() {
                    self.locks.push((miner, epoch, lock));
                    o.count("reward_locks_observed");
                }
            }
        } else {
            for i in inv.effective() {
                if i.to == maddr && i.method == MinerMethod::ApplyRewards as u64
                    && let Some(p) = i.params.as_ref().and_then(|p| p.deserialize::<fil_actor_miner::ApplyRewardParams>().ok())
                {
                    let lock = TokenAmount::from_atto((p.reward.atto() * 75) / 100);
                    if lock.is_positive() {
                        self.locks.push((miner, epoch, lock));
                        o.count("reward_locks_observed");
                    }
                }
            }
        }
    }

    /// C14 envelope + grid, at any quiescent point
    pub fn check_vesting(&self, m: &MinerSnap, epoch: ChainEpoch, recently_unlocked: bool, o: &mut Outcome, when: &str) {
        o.count("vesting_envelope_checks");
        let period = 180 * DAY;
        let step = DAY;
        let quant = DAY / 2;
        let mut must_still_be_locked = TokenAmount::zero();
        let mut total_locked_ever = TokenAmount::zero();
        for (mi, e, a) in &self.locks {
            if *mi != m.id {
                continue;
            }
            total_locked_ever += a;
            // the latest step boundary that can have been reached by `epoch`, generously
            let elapsed = (epoch - e + step + quant).clamp(0, period);
            let vested_at_most = TokenAmount::from_atto((a.atto() * elapsed) / period);
            must_still_be_locked += a - vested_at_most;
        }
        let burnt = self.burnt_by.get(&m.id).cloned().unwrap_or_default();
        if &m.locked_funds + &burnt < must_still_be_locked {
            o.violate("vests_no_earlier", "C14/unlocked_ahead_of_schedule", format!("{when}: miner {} holds vesting funds {} at epoch {epoch}; the linear 180-day schedule of its {} lock events requires at least {must_still_be_locked} still locked (minus at most {burnt} burnt as its own penalties)", m.id, m.locked_funds, self.locks.iter().filter(|l| l.0 == m.id).count()));
        }
        if recently_unlocked {
            // upper bound: after an unlocking event (the deadline callback of an active miner, at most one
            // deadline ago) no more may remain locked than the slowest reading of the schedule allows
            let mut may_remain = TokenAmount::zero();
            for (mi, e, a) in &self.locks {
                if *mi != m.id {
                    continue;
                }
                let elapsed = (epoch - e - step - quant - 61).clamp(0, period);
                let steps_done = elapsed / step;
                let vested_at_least = TokenAmount::from_atto((a.atto() * (steps_done * step)) / period);
                may_remain += a - vested_at_least;
            }
            o.count("vesting_upper_bound_checks");
            if m.locked_funds > may_remain {
                o.violate("vests_in_full", "C14/still_locked_after_schedule", format!("{when}: miner {} still holds vesting funds {} at epoch {epoch} after an unlocking event; its lock events allow at most {may_remain} to remain", m.id, m.locked_funds));
            }
        }
        if m.locked_funds > total_locked_ever {
            o.violate("vests_no_more", "C14/locked_more_than_ever_locked", format!("{when}: miner {} vesting funds {} exceed everything ever locked {total_locked_ever}", m.id, m.locked_funds));
        }
        for (e, a) in &m.vesting {
            if (e - m.proving_period_start).rem_euclid(quant) != 0 {
                o.violate("vesting_grid", "C14/vesting_entry_off_grid", format!("{when}: miner {} vesting entry at {e} is not on the 12-hour grid of its proving period offset {}", m.id, m.proving_period_start));
            }
            if !a.is_positive() {
                o.violate("vesting_grid", "C14/vesting_entry_not_positive", format!("{when}: miner {} vesting entry ({e}, {a})", m.id));
            }
        }
        // everything is vested once the last schedule has run out and an unlocking event happened
        let last_end = self.locks.iter().filter(|l| l.0 == m.id).map(|l| l.1 + period + step + quant).max().unwrap_or(0);
        if let Some((e, _)) = m.vesting.iter().find(|(e, _)| *e > last_end) {
            o.violate("vests_no_more", "C14/vesting_entry_beyond_schedule", format!("{when}: miner {} has a vesting entry at {e}, after the end {last_end} of every schedule", m.id));
        }
    }

    /// C15 at a deadline-end callback: the faulty power of the closing deadline is charged
    pub fn on_deadline_callback(&mut self, pre: &MinerSnap, post: &MinerSnap, cb: &Inv, closing_deadline: u64, o: &mut Outcome, when: &str) {
        let burnt = send_to_burn(cb);
        *self.burnt_by.entry(pre.id).or_default() += &burnt;
        if !cb.ok() {
            return;
        }
        let Some(p) = cb.params.as_ref().and_then(|p| p.deserialize::<DeferredCronEventParams>().ok()) else { return };
        let Some(d) = pre.deadlines.get(closing_deadline as usize) else { return };
        let faulty_qa = &d.faulty_power.1;
        if !faulty_qa.is_positive() {
            return;
        }
        // the numeric projection is only meaningful while both estimates stay well away from zero
        // over the projection period
        let stable = |e: &FilterEstimate| {
            let (p0, v) = (q128_to_f64(&e.position), q128_to_f64(&e.velocity));
            p0 > 0.0 && (p0 + v * CONTINUED_FAULT_PERIOD as f64) > 0.5 * p0 && (p0 + v * CONTINUED_FAULT_PERIOD as f64) < 2.0 * p0
        };
        if !stable(&p.reward_smoothed) || !stable(&p.quality_adj_power_smoothed) {
            o.count("continued_fault_fee_estimates_ill_conditioned");
            // still: some fee must have been charged, unless the power estimate is projected to
            // reach zero within the projection period (the protocol's projection is then void)
            let pos = |e: &FilterEstimate| q128_to_f64(&e.position) > 0.0 && q128_to_f64(&e.position) + q128_to_f64(&e.velocity) * CONTINUED_FAULT_PERIOD as f64 > 0.0;
            let charged = &burnt + (&post.fee_debt - &pre.fee_debt);
            if pos(&p.reward_smoothed) && pos(&p.quality_adj_power_smoothed) && !charged.is_positive() {
                o.violate("continued_fault_fee", "C15/continued_fault_not_charged", format!("{when}: miner {} deadline {closing_deadline} closed with faulty QA power {faulty_qa} and nothing was charged (balance {} -> {}, fee debt {} -> {}, vesting {} -> {}, reward estimate {:e}/{:e}, power estimate {:e}/{:e}, cron active {}, sub-sends {})", pre.id, pre.balance, post.balance, pre.fee_debt, post.fee_debt, pre.locked_funds, post.locked_funds, q128_to_f64(&p.reward_smoothed.position), q128_to_f64(&p.reward_smoothed.velocity), q128_to_f64(&p.quality_adj_power_smoothed.position), q128_to_f64(&p.quality_adj_power_smoothed.velocity), pre.deadline_cron_active, cb.subs.len()));
            }
            return;
        }
        o.count("continued_fault_fee_checks");
        let expect = expected_reward(&p.reward_smoothed, &p.quality_adj_power_smoothed, faulty_qa, CONTINUED_FAULT_PERIOD);
        let charged = &burnt + (&post.fee_debt - &pre.fee_debt);
        let c = atto_f64(&charged);
        if c < expect * 0.98 - 1.0 {
            o.violate("continued_fault_fee", "C15/continued_fault_fee_undercharged", format!("{when}: miner {} deadline {closing_deadline} closed with faulty QA power {faulty_qa}; charged {charged} (burnt {burnt}, debt change {}) but the continued-fault fee BR(3.51 days) for that power is about {:.0} atto", pre.id, &post.fee_debt - &pre.fee_debt, expect));
        }
    }
}

pub fn qa_of_sectors(m: &MinerSnap, set: &BTreeSet<u64>) -> BigInt {
    let mut t = BigInt::zero();
    for s in set {
        if let Some(i) = m.sectors.get(s) {
            t += sector_power(m.info.sector_size, i).1;
        }
    }
    t
}
