//! Harness self-tests run by setup: primitives used by the oracles and MVM fidelity.
use crate::evm;
use crate::mvm::Mvm;
use crate::world::*;
use fil_actors_runtime::runtime::Policy;
use fvm_shared::sector::{RegisteredPoStProof, RegisteredSealProof};
use vm_api::VM;

pub fn run() -> i32 {
    let mut fails = 0;
    let mut check = |name: &str, ok: bool| {
        println!("selftest {name}: {}", if ok { "ok" } else { "FAILED" });
        if !ok {
            fails += 1;
        }
    };
    // Keccak vectors
    check("keccak(empty)", hex::encode(evm::keccak256(b"")) == "c5d2460186f7233c927e7db2dcc703c0e500b653ca82273b7bfad8045d85a470");
    check("keccak(abc)", hex::encode(evm::keccak256(b"abc")) == "4e03657aea45a94fc7d47ba826c8d667c0d1e6e33a64a036ec44f58fa12d6c45");
    check("keccak agrees with reference EVM's", evm::keccak256(&[7u8; 300]) == crate::refevm::keccak256(&[7u8; 300]));
    // CREATE address vectors (well-known: sender 0x6ac7ea33f8831ea9dcc53393aaa88b25a785dbf0 nonce 0/1)
    let s: [u8; 20] = hex::decode("6ac7ea33f8831ea9dcc53393aaa88b25a785dbf0").unwrap().try_into().unwrap();
    check("create(nonce 0)", hex::encode(evm::create_address(&s, 0)) == "cd234a471b72ba2f1ccf0a70fcaba648a5eecd8d");
    check("create(nonce 1)", hex::encode(evm::create_address(&s, 1)) == "343c43a37d37dff08ae8c4a11544c718abb4fcf8");
    // EIP-1014 example: address 0x00..00, salt 0, init 0x00
    check("create2 eip1014 #1", hex::encode(evm::create2_address(&[0u8; 20], &[0u8; 32], &[0u8])) == "4d1a2e2bb4f88f0250f26ffff098b0b30b26bf38");
    let p = Policy::default();
    println!("policy: 32GiB post enabled={} 2KiB post enabled={} 32GiB seal={} min_consensus_power={}",
        p.valid_post_proof_type.contains(RegisteredPoStProof::StackedDRGWindow32GiBV1P1),
        p.valid_post_proof_type.contains(RegisteredPoStProof::StackedDRGWindow2KiBV1P1),
        p.valid_pre_commit_proof_type.contains(RegisteredSealProof::StackedDRG32GiBV1P1),
        p.minimum_consensus_power);
    // genesis sanity + fidelity against TestVM
    let v: Mvm = genesis(Policy::default());
    check("genesis total", v.total_balance() == fil(2_100_000_000));
    check("fidelity vs TestVM", crate::fidelity::differential(200, 7).is_ok());
    let _ = v.epoch();
    if fails == 0 { 0 } else { 2 }
}
