//! World-level monitors evaluated after every top-level message and every cron tick:
//! C01 (conservation, solvency), C02 (claims and network power), C03 (network pledge), C05 (cron).
use crate::framework::Outcome;
use crate::miner::*;
use crate::minerops::{MinerWorld, cron_events_for, deadline_at};
use crate::mvm::{Inv, Mvm};
use fil_actors_runtime::runtime::Policy;
use fil_actors_runtime::runtime::builtins::Type;
use fil_actors_runtime::test_utils::ACTOR_TYPES;
use fil_actors_runtime::{
    BURNT_FUNDS_ACTOR_ADDR, BURNT_FUNDS_ACTOR_ID, CRON_ACTOR_ID, REWARD_ACTOR_ADDR,
    STORAGE_MARKET_ACTOR_ADDR, STORAGE_MARKET_ACTOR_ID, STORAGE_POWER_ACTOR_ID,
};
use fvm_shared::METHOD_SEND;
use fvm_shared::address::Address;
use fvm_shared::bigint::{BigInt, Zero};
use fvm_shared::clock::ChainEpoch;
use fvm_shared::econ::TokenAmount;
use fvm_shared::error::ExitCode;
use std::collections::{BTreeMap, BTreeSet};
use vm_api::VM;

pub const ERR_BALANCE_INVARIANTS_BROKEN: u32 = 1000;

// ---------------------------------------------------------------------------------------------
// C01

pub struct Conservation {
    pub total: TokenAmount,
    pub burnt: TokenAmount,
    /// effective sends to the burnt-funds account observed since the last check
    pub burn_seen: TokenAmount,
    pub traces_seen: bool,
}

impl Conservation {
    pub fn new(v: &Mvm) -> Self {
        Conservation { total: v.total_balance(), burnt: v.balance(&BURNT_FUNDS_ACTOR_ADDR), burn_seen: TokenAmount::zero(), traces_seen: false }
    }

    /// trace-level double entry + burn accounting for one top-level invocation tree
    pub fn observe(&mut self, inv: &Inv, o: &mut Outcome, when: &str) {
        self.traces_seen = true;
        let mut burn_in = TokenAmount::zero();
        inv.walk(&mut |i, _, anc_ok| {
            o.count("invocations_seen");
            if i.value.is_negative() {
                o.violate("double_entry", "C01/negative_value_sent", format!("{when}: {} -> {} value {}", i.from, i.to, i.value));
            }
            if anc_ok && i.ok() {
                if i.from_bal_pre < i.value {
                    o.violate("double_entry", "C01/sent_more_than_balance", format!("{when}: {} sent {} with balance {}", i.from, i.value, i.from_bal_pre));
                }
                if i.to == BURNT_FUNDS_ACTOR_ADDR {
                    burn_in += &i.value;
                }
                if i.from == BURNT_FUNDS_ACTOR_ID && !i.value.is_zero() {
                    o.violate("burn", "C01/funds_left_burn_account", format!("{when}: burnt-funds account sent {}", i.value));
                }
                if Address::new_id(i.from) == REWARD_ACTOR_ADDR && i.value > i.from_bal_pre {
                    o.violate("reward_solvent", "C01/reward_paid_more_than_held", format!("{when}: reward actor sent {} holding {}", i.value, i.from_bal_pre));
                }
            }
            if i.exit.value() == ERR_BALANCE_INVARIANTS_BROKEN {
                o.violate("err1000", "C05/balance_invariants_broken_reported", format!("{when}: {} -> {} method {} exited with 1000 ({})", i.from, i.to, i.method, i.msg));
            }
        });
        self.burn_seen += burn_in;
    }

    /// after a top-level message / a batch of ticks (all their traces observed before)
    pub fn check(&mut self, v: &Mvm, inv: Option<&Inv>, miners: &[MinerSnap], lite: &[crate::minerops::MinerLite], o: &mut Outcome, when: &str) {
        o.count("conservation_checks");
        if let Some(inv) = inv {
            self.observe(inv, o, when);
        }
        let t = v.total_balance();
        if t != self.total {
            o.violate("total_constant", "C01/total_fil_changed", format!("{when}: sum of all actor balances {} -> {t}", self.total));
            self.total = t;
        }
        let b = v.balance(&BURNT_FUNDS_ACTOR_ADDR);
        if self.traces_seen && &b - &self.burnt != self.burn_seen {
            o.violate("burn", "C01/burn_account_delta", format!("{when}: burnt-funds balance changed by {} but effective sends to it total {}", &b - &self.burnt, self.burn_seen));
        }
        self.burn_seen = TokenAmount::zero();
        self.traces_seen = false;
        if b < self.burnt {
            o.violate("burn", "C01/burn_account_decreased", format!("{when}: burnt funds {} -> {b}", self.burnt));
        }
        self.burnt = b;
        // solvency: miners
        for m in miners {
            let need = &m.pre_commit_deposits + &m.locked_funds + &m.initial_pledge;
            o.count("miner_solvency_checks");
            if m.balance < need {
                o.violate("miner_solvent", "C01/miner_balance_below_obligations", format!("{when}: miner {} balance {} < pre-commit deposits {} + vesting {} + pledge {}", m.id, m.balance, m.pre_commit_deposits, m.locked_funds, m.initial_pledge));
            }
        }
        for m in lite {
            let need = &m.pre_commit_deposits + &m.locked_funds + &m.initial_pledge;
            if m.balance < need {
                o.violate("miner_solvent", "C01/miner_balance_below_obligations", format!("{when}: miner {} balance {} < obligations {need}", m.id, m.balance));
            }
        }
        // market
        let ms = crate::market::snap(v);
        let sum_escrow: TokenAmount = ms.escrow.values().cloned().sum();
        if sum_escrow > ms.balance {
            o.violate("market_solvent", "C01/market_escrow_gt_balance", format!("{when}: market escrow total {sum_escrow} > balance {}", ms.balance));
        }
        let sum_locked: TokenAmount = ms.locked.values().cloned().sum();
        if sum_locked > sum_escrow {
            o.violate("market_solvent", "C01/market_locked_gt_escrow", format!("{when}: market locked {sum_locked} > escrow {sum_escrow}"));
        }
    }
}

/// a failed top-level message must not change anything (state root equality is checked by the caller)

// ---------------------------------------------------------------------------------------------
// C02

#[derive(Default)]
pub struct PowerShadow {
    /// (miner, sector) covered by an accepted PoSt at least once
    pub proven: BTreeSet<(u64, u64)>,
    /// (miner, sector) known faulty (sound, not complete)
    pub faulty: BTreeSet<(u64, u64)>,
}

pub fn check_power(v: &Mvm, policy: &Policy, miners: &[MinerSnap], shadow: &PowerShadow, o: &mut Outcome, when: &str) {
    o.count("power_checks");
    let (claims, pst) = power_claims(v);
    let mut sum_raw = BigInt::zero();
    let mut sum_qa = BigInt::zero();
    let mut above_raw = BigInt::zero();
    let mut above_qa = BigInt::zero();
    let mut above = 0i64;
    for (id, (raw, qa)) in &claims {
        sum_raw += raw;
        sum_qa += qa;
        if raw >= &policy.minimum_consensus_power {
            above += 1;
            above_raw += raw;
            above_qa += qa;
        }
        if raw.sign() == fvm_shared::bigint::Sign::Minus || qa.sign() == fvm_shared::bigint::Sign::Minus {
            o.violate("claim_sign", "C02/negative_claim", format!("{when}: miner {id} claim ({raw}, {qa})"));
        }
    }
    for m in miners {
        let want = expected_claim(m);
        match claims.get(&m.id) {
            Some(c) => {
                o.count("claim_comparisons");
                if c.0 != want.0 || c.1 != want.1 {
                    o.violate("claim_equals_active_sectors", "C02/claim_ne_active_power", format!("{when}: miner {} is credited ({}, {}) but its proven, non-faulty, live sectors sum to ({}, {})", m.id, c.0, c.1, want.0, want.1));
                }
            }
            None => {
                if !want.0.is_zero() {
                    o.violate("claim_equals_active_sectors", "C02/claim_missing", format!("{when}: miner {} has no power claim but active sectors worth {}", m.id, want.0));
                }
            }
        }
        // history facts: every sector counted as active was covered by an accepted PoSt and is not known faulty
        for d in &m.deadlines {
            for p in &d.partitions {
                for s in p.active() {
                    o.count("active_sector_history_checks");
                    if !shadow.proven.contains(&(m.id, s)) {
                        o.violate("power_needs_post", "C02/power_without_post", format!("{when}: miner {} sector {s} counts as active but no accepted Window PoSt ever covered it", m.id));
                    }
                    if shadow.faulty.contains(&(m.id, s)) {
                        o.violate("power_needs_post", "C02/power_while_faulty", format!("{when}: miner {} sector {s} counts as active but it was declared/skipped/missed faulty and no accepted PoSt recovered it since", m.id));
                    }
                }
            }
        }
    }
    if pst.total_bytes_committed != sum_raw || pst.total_qa_bytes_committed != sum_qa {
        o.violate("network_totals", "C02/committed_totals_ne_sum_of_claims", format!("{when}: committed totals ({}, {}) but claims sum to ({sum_raw}, {sum_qa})", pst.total_bytes_committed, pst.total_qa_bytes_committed));
    }
    if pst.total_raw_byte_power != above_raw || pst.total_quality_adj_power != above_qa || pst.miner_above_min_power_count != above {
        o.violate("network_totals", "C02/consensus_totals_ne_sum_above_minimum", format!("{when}: consensus power ({}, {}) count {} but claims at or above the minimum sum to ({above_raw}, {above_qa}) count {above}", pst.total_raw_byte_power, pst.total_quality_adj_power, pst.miner_above_min_power_count));
    }
    if pst.miner_count != claims.len() as i64 {
        o.violate("network_totals", "C02/miner_count", format!("{when}: miner_count {} but {} claims", pst.miner_count, claims.len()));
    }
    if above > 0 {
        o.seen("consensus_threshold", format!("above={}", above.min(3)));
    }
}

// ---------------------------------------------------------------------------------------------
// C03 network side

/// `deposits`: creation deposit of every miner in the world (the known finding's exact shape)
pub fn check_network_pledge(v: &Mvm, miners: &[MinerSnap], lite: &[crate::minerops::MinerLite], deposits: &TokenAmount, o: &mut Outcome, when: &str) {
    o.count("network_pledge_checks");
    let (_, pst) = power_claims(v);
    let sum: TokenAmount = miners.iter().map(|m| &m.initial_pledge + &m.locked_funds).sum::<TokenAmount>()
        + lite.iter().map(|m| &m.initial_pledge + &m.locked_funds).sum::<TokenAmount>();
    if pst.total_pledge_collateral.is_negative() {
        o.violate("network_pledge", "C03/network_pledge_negative", format!("{when}: total pledge collateral {}", pst.total_pledge_collateral));
    }
    if pst.total_pledge_collateral != sum {
        let diff = &sum - &pst.total_pledge_collateral;
        if &diff == deposits && !deposits.is_zero() {
            o.violate("network_pledge", "C03/network_pledge_total/off-by-creation-deposits",
                format!("{when}: network total pledge {} but miners hold pledge + vesting {sum}; the difference is exactly the miners' creation deposits ({deposits}), which were locked by the miner constructor without being reported to the power actor", pst.total_pledge_collateral));
        } else {
            o.violate("network_pledge", "C03/network_pledge_total_ne_sum", format!("{when}: network total pledge {} but miners hold pledge + vesting {sum} (difference {diff}; creation deposits {deposits})", pst.total_pledge_collateral));
        }
    }
}

/// "never causes an otherwise valid miner operation to fail": a failed UpdatePledgeTotal anywhere
pub fn check_pledge_update_failures(v: &Mvm, inv: &Inv, deposits: &TokenAmount, o: &mut Outcome, when: &str) {
    let (_, pst) = power_claims(v);
    inv.walk(&mut |i, _, _| {
        if i.to.id().ok() == Some(STORAGE_POWER_ACTOR_ID) && i.method == fil_actor_power::Method::UpdatePledgeTotal as u64 && !i.ok() && !i.injected {
            let delta: Option<TokenAmount> = i.params.as_ref().and_then(|p| p.deserialize().ok());
            let covered = delta.as_ref().is_some_and(|d| !(&pst.total_pledge_collateral + deposits + d).is_negative());
            if covered {
                o.violate("pledge_update_never_fails", "C03/pledge_total_underflow_fails_call/creation-deposit",
                    format!("{when}: UpdatePledgeTotal({:?}) from miner {} failed with {} because the network total ({}) lacks the creation deposits ({deposits}); the miner's call was valid", delta, i.from, i.exit, pst.total_pledge_collateral));
            } else {
                o.violate("pledge_update_never_fails", "C03/pledge_update_failed", format!("{when}: UpdatePledgeTotal({:?}) from miner {} failed with {} ({})", delta, i.from, i.exit, i.msg));
            }
        }
    });
}

// ---------------------------------------------------------------------------------------------
// C05

pub struct CronMonitor {
    /// miners whose first callback after (re-)enrolment has been seen
    pub callback_seen: BTreeSet<u64>,
    pub ever_enrolled: BTreeSet<u64>,
    pub idle_unfunded: BTreeSet<u64>,
}

impl CronMonitor {
    pub fn new() -> Self {
        CronMonitor { callback_seen: BTreeSet::new(), ever_enrolled: BTreeSet::new(), idle_unfunded: BTreeSet::new() }
    }

    /// inspect one cron tick's trace; `claims_before` = claims before the tick
    pub fn check_tick(&mut self, v: &Mvm, at: ChainEpoch, inv: &Inv, ok: bool, claims_before: &Claims, claims_after: &Claims, deposits: &TokenAmount, o: &mut Outcome) {
        o.count("ticks_checked");
        if !ok {
            o.violate("cron_succeeds", "C05/cron_tick_failed", format!("tick at {at}: system -> cron.EpochTick exited with {}", inv.exit));
        }
        let mut power_ok = false;
        let mut market_ok = false;
        let (_, pst) = power_claims(v);
        inv.walk(&mut |i, depth, _| {
            if i.injected {
                return;
            }
            if i.from == CRON_ACTOR_ID && depth == 1 {
                let to = i.to.id().unwrap_or(0);
                if to == STORAGE_POWER_ACTOR_ID {
                    power_ok = i.ok();
                }
                if to == STORAGE_MARKET_ACTOR_ID {
                    market_ok = i.ok();
                }
                if !i.ok() {
                    o.violate("cron_succeeds", format!("C05/cron_entry_failed:{}", to), format!("tick at {at}: cron -> actor {to} method {} exited with {}: {}", i.method, i.exit, i.msg));
                }
            }
            if i.from == STORAGE_POWER_ACTOR_ID && i.method == fil_actor_miner::Method::OnDeferredCronEvent as u64 {
                o.count("miner_callbacks_seen");
                if i.ok() {
                    self.callback_seen.insert(i.to.id().unwrap_or(0));
                } else {
                    // root cause classification for the known finding
                    let mut underflow = false;
                    i.walk(&mut |j, _, _| {
                        if j.method == fil_actor_power::Method::UpdatePledgeTotal as u64 && !j.ok() {
                            let d: Option<TokenAmount> = j.params.as_ref().and_then(|p| p.deserialize().ok());
                            if d.is_some_and(|d| !(&pst.total_pledge_collateral + deposits + &d).is_negative()) {
                                underflow = true;
                            }
                        }
                    });
                    if underflow {
                        o.violate("callback_succeeds", "C05/miner_callback_failed/pledge-total-underflow-creation-deposit", format!("tick at {at}: OnDeferredCronEvent of miner {} failed with {} because UpdatePledgeTotal went negative: the network total lacks the creation deposits", i.to, i.exit));
                    } else {
                        o.violate("callback_succeeds", "C05/miner_callback_failed", format!("tick at {at}: OnDeferredCronEvent of miner {} exited with {}: {}", i.to, i.exit, i.msg));
                    }
                }
            }
        });
        let _ = (power_ok, market_ok);
        // no claim may disappear across a tick
        let underflow_here = o.violations.iter().any(|x| x.signature == "C05/miner_callback_failed/pledge-total-underflow-creation-deposit" && x.detail.starts_with(&format!("tick at {at}:")));
        for id in claims_before.keys() {
            if !claims_after.contains_key(id) {
                if underflow_here {
                    o.violate("claim_kept", "C05/claim_lost_in_tick/after-pledge-total-underflow-creation-deposit", format!("tick at {at}: miner {id} lost its power claim because its deadline callback failed on the pledge-total underflow caused by the unreported creation deposits"));
                } else {
                    o.violate("claim_kept", "C05/claim_lost_in_tick", format!("tick at {at}: miner {id} lost its power claim"));
                }
            }
        }
        if !v.panics.borrow().is_empty() {
            let p = v.panics.borrow()[0].clone();
            o.violate("no_panic", "C05/panic", format!("panic in message to {} method {}: {}", p.to, p.method, p.message));
            v.panics.borrow_mut().clear();
        }
    }

    /// schedule facts after a message or a tick. `after_tick_at` = Some(epoch of the tick just run)
    pub fn check_schedule(&mut self, w: &MinerWorld, miners: &[MinerSnap], after_tick_at: Option<ChainEpoch>, o: &mut Outcome, when: &str) {
        let policy = &w.v.policy;
        for (mn, m) in w.miners.iter().filter(|m| !m.whale).zip(miners) {
            o.count("schedule_checks");
            let events = cron_events_for(&w.v, &mn.addr);
            let proving: Vec<&(ChainEpoch, i64)> = events.iter().filter(|e| e.1 == fil_actor_miner::CRON_EVENT_PROVING_DEADLINE).collect();
            let funds = !(m.pre_commit_deposits.is_zero() && m.initial_pledge.is_zero() && m.locked_funds.is_zero());
            if funds {
                let fresh = m.precommits.is_empty() && m.sectors.is_empty() && m.pre_commit_deposits.is_zero() && m.initial_pledge.is_zero() && !self.ever_enrolled.contains(&m.id);
                if proving.len() != 1 || !m.deadline_cron_active {
                    if fresh && proving.is_empty() && !m.deadline_cron_active {
                        o.violate("one_pending_callback", "C05/no_pending_callback/fresh-miner-creation-deposit-only",
                            format!("{when}: miner {} holds vesting funds {} (its creation deposit) but has no pending proving-deadline callback and deadline_cron_active=false: the constructor locks the deposit without enrolling the cron", m.id, m.locked_funds));
                    } else if self.idle_unfunded.contains(&m.id) && proving.is_empty() && !m.deadline_cron_active && m.precommits.is_empty() && m.pre_commit_deposits.is_zero() && m.initial_pledge.is_zero() {
                        // the cron had stopped for a miner without funds; funds were locked afterwards
                        // (ApplyRewards locks 75% of a reward) and nothing re-enrolled it
                        o.violate("one_pending_callback", "C05/no_pending_callback/funds-locked-after-cron-stopped",
                            format!("{when}: miner {} holds vesting funds {} locked after its deadline cron had stopped (no sectors, deposits or pledge): no proving-deadline callback is pending and deadline_cron_active=false", m.id, m.locked_funds));
                    } else {
                        o.violate("one_pending_callback", "C05/pending_callbacks_ne_1", format!("{when}: miner {} has pcd {} pledge {} vesting {} but {} pending proving-deadline callbacks (active flag {})", m.id, m.pre_commit_deposits, m.initial_pledge, m.locked_funds, proving.len(), m.deadline_cron_active));
                    }
                } else {
                    self.ever_enrolled.insert(m.id);
                }
            } else if !proving.is_empty() {
                // allowed: an inactive miner may still have a last callback queued
                o.count("inactive_miner_with_callback");
            }
            // remember miners seen without funds and without a running cron (and forget them once it runs)
            if !funds && !m.deadline_cron_active && proving.is_empty() {
                self.idle_unfunded.insert(m.id);
            } else if m.deadline_cron_active {
                self.idle_unfunded.remove(&m.id);
            }
            if proving.len() > 1 {
                o.violate("one_pending_callback", "C05/duplicate_callbacks", format!("{when}: miner {} has {} pending proving-deadline callbacks: {:?}", m.id, proving.len(), proving));
            }
            // recorded deadline is the one containing the next epoch, from the first callback on
            if let Some(at) = after_tick_at
                && self.callback_seen.contains(&m.id)
                && m.deadline_cron_active
            {
                let d = deadline_at(policy, m.proving_period_start, at + 1);
                o.count("recorded_deadline_checks");
                // the recorded period start is only advanced when the deadline index wraps, so after a
                // re-enrolment it may lag by whole periods (the code uses it as an offset only);
                // the index and the offset must be current
                let same_offset = (d.period_start - m.proving_period_start).rem_euclid(policy.wpost_proving_period) == 0 && m.proving_period_start <= at + 1;
                if !same_offset || d.index != m.current_deadline {
                    o.violate("recorded_deadline", "C05/recorded_deadline_stale", format!("after tick at {at}: miner {} records period start {} deadline {} but epoch {} lies in period {} deadline {}", m.id, m.proving_period_start, m.current_deadline, at + 1, d.period_start, d.index));
                }
                // its pending callback is at the end of that deadline
                if let Some(p) = proving.first()
                    && p.0 != d.last()
                {
                    o.violate("recorded_deadline", "C05/callback_not_at_deadline_end", format!("after tick at {at}: miner {} next callback at {} but its current deadline ends at {}", m.id, p.0, d.last()));
                }
            }
            if !m.deadline_cron_active {
                self.callback_seen.remove(&m.id);
            }
        }
    }
}

/// bounded progress: nothing live is past its expiration after the tick that ends its deadline
pub fn check_progress(policy: &Policy, miners: &[MinerSnap], at: ChainEpoch, o: &mut Outcome) {
    for m in miners {
        if !m.deadline_cron_active {
            continue;
        }
        for (di, d) in m.deadlines.iter().enumerate() {
            for (pi, p) in d.partitions.iter().enumerate() {
                for (e, es) in &p.expirations {
                    // an expiration-queue entry whose epoch has passed must have been popped by the
                    // callback at that epoch (queue keys are deadline ends)
                    if *e <= at && !(es.on_time.is_empty() && es.early.is_empty()) {
                        o.violate("expirations_processed", "C05/expired_sectors_not_processed", format!("after tick at {at}: miner {} deadline {di} partition {pi} still holds sectors {:?}/{:?} queued to expire at {e}", m.id, es.on_time, es.early));
                    }
                }
            }
        }
        // early terminations waiting in a deadline must be flagged at miner level (that flag is what
        // drives their processing); otherwise they are stranded for good
        for (di, d) in m.deadlines.iter().enumerate() {
            let waiting = d.partitions.iter().any(|p| p.early_terminated.values().any(|b| !b.is_empty()));
            if waiting && !m.early_terminations.contains(&(di as u64)) {
                o.violate("early_terminations_processed", "C05/early_terminations_stranded", format!("after tick at {at}: miner {} deadline {di} has sectors waiting for early-termination processing but the miner does not list that deadline ({:?}): they will never be processed", m.id, m.early_terminations));
                // ... and therefore never charged their termination fee (C15)
                o.violate("early_termination_fee", "C15/early_termination_never_charged", format!("after tick at {at}: miner {} deadline {di} holds early-terminated sectors that no pending work item will ever settle (miner-level early terminations {:?}): their termination fee is never charged", m.id, m.early_terminations));
            }
        }
        let _ = policy;
    }
}

pub fn actor_type_name(v: &Mvm, id: u64) -> String {
    match v.actor(&Address::new_id(id)).and_then(|a| ACTOR_TYPES.get(&a.code).cloned()) {
        Some(t) => format!("{:?}", t),
        None => "?".into(),
    }
}

pub fn is_miner(v: &Mvm, id: u64) -> bool {
    v.actor_type(id) == Some(Type::Miner)
}

pub fn exit_is(e: ExitCode, n: u32) -> bool {
    e.value() == n
}

pub fn send_to_burn(inv: &Inv) -> TokenAmount {
    let mut t = TokenAmount::zero();
    for i in inv.effective() {
        if i.to == BURNT_FUNDS_ACTOR_ADDR && i.method == METHOD_SEND {
            t += &i.value;
        }
    }
    t
}

pub fn market_addr() -> Address {
    STORAGE_MARKET_ACTOR_ADDR
}

pub type ClaimsMap = BTreeMap<u64, (BigInt, BigInt)>;
