//! MVM fidelity guard: the same generated top-level messages are executed on the repo's TestVM and
//! on the MVM (features the TestVM lacks are avoided); exit codes, return bytes and the resulting
//! actor balances / state heads must agree. A mismatch is a harness error, never a VIOLATION.
use crate::rng::Rng;
use crate::world::*;
use fil_actors_runtime::runtime::Policy;
use fil_actors_runtime::test_blockstores::MemoryBlockstore;
use fil_actors_runtime::{INIT_ACTOR_ADDR, STORAGE_MARKET_ACTOR_ADDR, STORAGE_POWER_ACTOR_ADDR};
use fvm_ipld_encoding::RawBytes;
use fvm_ipld_encoding::ipld_block::IpldBlock;
use fvm_shared::METHOD_SEND;
use fvm_shared::address::Address;
use fvm_shared::econ::TokenAmount;
use test_vm::TestVM;
use vm_api::VM;

type Msg = (Address, Address, TokenAmount, u64, Option<IpldBlock>);

pub fn differential(n: usize, seed: u64) -> Result<usize, String> {
    let t = TestVM::new_with_singletons(MemoryBlockstore::new());
    let m = genesis(Policy::default());
    let mut rng = Rng::new(seed);
    let vms: [&dyn VM; 2] = [&t, &m];
    let mut compared = 0;
    // accounts
    let mut keys = vec![];
    for i in 0..4u8 {
        keys.push(if i % 2 == 0 { Address::new_secp256k1(&[i + 1; 65]).unwrap() } else { Address::new_bls(&[i + 1; 48]).unwrap() });
    }
    let mut ids: Vec<Address> = vec![];
    for k in &keys {
        let mut got = vec![];
        for v in vms {
            let r = v.execute_message(&FAUCET, k, &fil(100_000), METHOD_SEND, None).map_err(|e| e.to_string())?;
            got.push((r.code, v.resolve_id_address(k)));
        }
        if got[0] != got[1] {
            return Err(format!("account creation differs: {:?}", got));
        }
        ids.push(got[0].1.unwrap());
    }
    for step in 0..n {
        let from = *rng.pick(&ids);
        let msg: Msg = match rng.below(7) {
            0 => (from, *rng.pick(&ids), atto(rng.below(1000)), METHOD_SEND, None),
            1 => (from, STORAGE_MARKET_ACTOR_ADDR, fil(rng.range(0, 3)), fil_actor_market::Method::AddBalance as u64,
                  IpldBlock::serialize_cbor(&fil_actor_market::AddBalanceParams { provider_or_client: *rng.pick(&ids) }).unwrap()),
            2 => (from, STORAGE_MARKET_ACTOR_ADDR, TokenAmount::from_atto(0), fil_actor_market::Method::WithdrawBalance as u64,
                  IpldBlock::serialize_cbor(&fil_actor_market::WithdrawBalanceParams { provider_or_client: *rng.pick(&ids), amount: atto(rng.below(1u64 << 62)) }).unwrap()),
            3 => {
                let cp = fil_actor_multisig::ConstructorParams { signers: vec![from, *rng.pick(&ids)], num_approvals_threshold: 1 + rng.below(2), unlock_duration: rng.range(0, 10), start_epoch: 0 };
                (from, INIT_ACTOR_ADDR, atto(rng.below(100)), fil_actor_init::Method::Exec as u64,
                 IpldBlock::serialize_cbor(&fil_actor_init::ExecParams { code_cid: *fil_actors_runtime::test_utils::MULTISIG_ACTOR_CODE_ID, constructor_params: RawBytes::serialize(&cp).unwrap() }).unwrap())
            }
            4 => (from, STORAGE_POWER_ACTOR_ADDR, TokenAmount::from_atto(0), fil_actor_power::Method::CurrentTotalPower as u64, None),
            5 => (from, *rng.pick(&ids), TokenAmount::from_atto(0), 99, None),
            _ => (from, Address::new_id(100 + rng.below(20)), atto(1), METHOD_SEND, None),
        };
        let mut outs = vec![];
        for v in vms {
            let r = v.execute_message(&msg.0, &msg.1, &msg.2, msg.3, msg.4.clone()).map_err(|e| e.to_string())?;
            outs.push((r.code, r.ret.map(|b| b.data)));
        }
        if outs[0] != outs[1] {
            return Err(format!("step {step}: message {:?} -> TestVM {:?} vs MVM {:?}", (msg.0, msg.1, msg.3), outs[0], outs[1]));
        }
        let (a, b) = (t.actor_states(), m.actor_states());
        if a != b {
            for (k, va) in &a {
                if b.get(k) != Some(va) {
                    return Err(format!("step {step}: actor {k} differs: TestVM {:?} vs MVM {:?}", va, b.get(k)));
                }
            }
            return Err(format!("step {step}: actor sets differ"));
        }
        compared += 1;
    }
    Ok(compared)
}
