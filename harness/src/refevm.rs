//! Reference EVM interpreter (Cancun + EIP-7939 CLZ), written for use as a test oracle.
//!
//! No gas accounting. Clarity over speed. No `unsafe`. Only depends on num-bigint /
//! num-traits / num-integer and std.
//!
//! Accounting conventions (see `run`):
//! * Every *fetched* instruction counts as one step, has its pc appended to `pcs`
//!   (up to `PCS_CAP`) and its opcode flagged in `opcodes_seen` -- including the
//!   instruction that fails, is unsupported, or halts.
//! * Running off the end of the code is an implicit STOP that is not a step.
//! * If executing the next instruction would make `steps > step_limit`, the run halts
//!   with `StepLimit` before that instruction is recorded.
//! * On `Revert` / `Failure` the returned storage/transient maps are clones of the
//!   input maps. On every other halt (including `StepLimit` and `Unsupported`) they are
//!   the working state with zero values removed.

use num_bigint::BigUint;
use num_traits::{One, ToPrimitive, Zero};
use std::collections::BTreeMap;

pub type U256 = BigUint;
pub type Word = [u8; 32];

pub const STACK_LIMIT: usize = 1024;
pub const PCS_CAP: usize = 100_000;

#[derive(Debug, Clone, PartialEq, Eq)]
pub struct Ctx {
    pub code: Vec<u8>,
    pub calldata: Vec<u8>,
    pub storage: BTreeMap<Word, Word>,
    pub transient: BTreeMap<Word, Word>,
    pub step_limit: u64,
    /// Memory limit in bytes; an access whose end (offset+size) exceeds it => Failure(MemoryLimit).
    pub mem_limit: usize,
}

impl Ctx {
    /// Convenience constructor: empty calldata/state, 1e6 steps, 1 MiB memory.
    pub fn new(code: Vec<u8>) -> Ctx {
        Ctx {
            code,
            calldata: Vec::new(),
            storage: BTreeMap::new(),
            transient: BTreeMap::new(),
            step_limit: 1_000_000,
            mem_limit: 1 << 20,
        }
    }
}

#[derive(Debug, Clone, PartialEq, Eq)]
pub enum Halt {
    Return(Vec<u8>),
    Revert(Vec<u8>),
    Stop,
    Failure(FailKind),
    /// (opcode, pc) of a Cancun-defined instruction this oracle does not model.
    Unsupported(u8, usize),
    StepLimit,
}

#[derive(Debug, Clone, Copy, PartialEq, Eq)]
pub enum FailKind {
    StackUnderflow,
    StackOverflow,
    BadJump,
    /// 0xfe or an undefined opcode byte.
    InvalidOpcode,
    MemoryLimit,
}

#[derive(Debug, Clone, PartialEq, Eq)]
pub struct Outcome {
    pub halt: Halt,
    pub storage: BTreeMap<Word, Word>,
    pub transient: BTreeMap<Word, Word>,
    pub steps: u64,
    pub pcs: Vec<u32>,
    pub jumps: Vec<(u32, u32)>,
    pub max_stack: usize,
    pub mem_size: usize,
    pub opcodes_seen: [bool; 256],
    /// a MemoryLimit failure was caused by an access beyond the 32-bit range
    pub mem_fail_beyond_u32: bool,
}

// ---------------------------------------------------------------------------------------
// Keccak-256
// ---------------------------------------------------------------------------------------

fn keccak_round_constants() -> [u64; 24] {
    // Generated with the degree-8 LFSR from the Keccak specification.
    let mut out = [0u64; 24];
    let mut lfsr: u8 = 1;
    for rc in out.iter_mut() {
        for j in 0..7u32 {
            if lfsr & 1 == 1 {
                *rc ^= 1u64 << ((1u32 << j) - 1);
            }
            let hi = lfsr & 0x80 != 0;
            lfsr <<= 1;
            if hi {
                lfsr ^= 0x71;
            }
        }
    }
    out
}

fn keccak_f1600(a: &mut [u64; 25], rcs: &[u64; 24]) {
    // Lane (x, y) is stored at a[x + 5*y].
    for rc in rcs.iter() {
        // theta
        let mut c = [0u64; 5];
        for x in 0..5 {
            c[x] = a[x] ^ a[x + 5] ^ a[x + 10] ^ a[x + 15] ^ a[x + 20];
        }
        for x in 0..5 {
            let d = c[(x + 4) % 5] ^ c[(x + 1) % 5].rotate_left(1);
            for y in 0..5 {
                a[x + 5 * y] ^= d;
            }
        }
        // rho + pi
        let (mut x, mut y) = (1usize, 0usize);
        let mut cur = a[1];
        for t in 0..24u32 {
            let (nx, ny) = (y, (2 * x + 3 * y) % 5);
            x = nx;
            y = ny;
            let tmp = a[x + 5 * y];
            a[x + 5 * y] = cur.rotate_left(((t + 1) * (t + 2) / 2) % 64);
            cur = tmp;
        }
        // chi
        for y in 0..5 {
            let row = [a[5 * y], a[5 * y + 1], a[5 * y + 2], a[5 * y + 3], a[5 * y + 4]];
            for x in 0..5 {
                a[5 * y + x] = row[x] ^ (!row[(x + 1) % 5] & row[(x + 2) % 5]);
            }
        }
        // iota
        a[0] ^= *rc;
    }
}

/// Sponge with rate 136 / capacity 512 / 32-byte output and a configurable domain
/// padding byte (0x01 = original Keccak as used by Ethereum, 0x06 = NIST SHA3-256).
fn keccak_sponge_256(data: &[u8], pad: u8) -> [u8; 32] {
    const RATE: usize = 136;
    let rcs = keccak_round_constants();
    let mut st = [0u64; 25];
    let absorb = |st: &mut [u64; 25], block: &[u8]| {
        for i in 0..RATE / 8 {
            let mut lane = [0u8; 8];
            lane.copy_from_slice(&block[8 * i..8 * i + 8]);
            st[i] ^= u64::from_le_bytes(lane);
        }
        keccak_f1600(st, &rcs);
    };
    let mut chunks = data.chunks_exact(RATE);
    for block in &mut chunks {
        absorb(&mut st, block);
    }
    let rem = chunks.remainder();
    let mut last = [0u8; RATE];
    last[..rem.len()].copy_from_slice(rem);
    last[rem.len()] ^= pad;
    last[RATE - 1] ^= 0x80;
    absorb(&mut st, &last);
    let mut out = [0u8; 32];
    for i in 0..4 {
        out[8 * i..8 * i + 8].copy_from_slice(&st[i].to_le_bytes());
    }
    out
}

/// Ethereum Keccak-256 (padding byte 0x01).
pub fn keccak256(data: &[u8]) -> [u8; 32] {
    keccak_sponge_256(data, 0x01)
}

// ---------------------------------------------------------------------------------------
// Code analysis
// ---------------------------------------------------------------------------------------

/// `result[i]` is true iff `code[i]` is a JUMPDEST (0x5b) that is not inside PUSH data.
pub fn jumpdests(code: &[u8]) -> Vec<bool> {
    let mut out = vec![false; code.len()];
    let mut i = 0usize;
    while i < code.len() {
        let op = code[i];
        if op == 0x5b {
            out[i] = true;
        }
        if (0x60..=0x7f).contains(&op) {
            i += (op - 0x5f) as usize;
        }
        i += 1;
    }
    out
}

#[derive(Debug, Clone, Copy, PartialEq, Eq)]
enum OpClass {
    /// Modelled; (items required on the stack, items present afterwards in their place).
    Supported(usize, usize),
    /// Defined in Cancun but not modelled.
    Unsupported,
    /// Not an instruction (or INVALID 0xfe).
    Undefined,
}

fn classify(op: u8) -> OpClass {
    use OpClass::*;
    match op {
        0x00 => Supported(0, 0),                      // STOP
        0x01..=0x07 => Supported(2, 1),               // ADD MUL SUB DIV SDIV MOD SMOD
        0x08 | 0x09 => Supported(3, 1),               // ADDMOD MULMOD
        0x0a | 0x0b => Supported(2, 1),               // EXP SIGNEXTEND
        0x10..=0x14 => Supported(2, 1),               // LT GT SLT SGT EQ
        0x15 => Supported(1, 1),                      // ISZERO
        0x16..=0x18 => Supported(2, 1),               // AND OR XOR
        0x19 => Supported(1, 1),                      // NOT
        0x1a..=0x1d => Supported(2, 1),               // BYTE SHL SHR SAR
        0x1e => Supported(1, 1),                      // CLZ (EIP-7939)
        0x20 => Supported(2, 1),                      // KECCAK256
        0x30..=0x34 => Unsupported,                   // ADDRESS BALANCE ORIGIN CALLER CALLVALUE
        0x35 => Supported(1, 1),                      // CALLDATALOAD
        0x36 => Supported(0, 1),                      // CALLDATASIZE
        0x37 => Supported(3, 0),                      // CALLDATACOPY
        0x38 => Supported(0, 1),                      // CODESIZE
        0x39 => Supported(3, 0),                      // CODECOPY
        0x3a..=0x3f => Unsupported,                   // GASPRICE EXTCODE* RETURNDATA* EXTCODEHASH
        0x40..=0x4a => Unsupported,                   // BLOCKHASH .. BLOBBASEFEE
        0x50 => Supported(1, 0),                      // POP
        0x51 => Supported(1, 1),                      // MLOAD
        0x52 | 0x53 => Supported(2, 0),               // MSTORE MSTORE8
        0x54 => Supported(1, 1),                      // SLOAD
        0x55 => Supported(2, 0),                      // SSTORE
        0x56 => Supported(1, 0),                      // JUMP
        0x57 => Supported(2, 0),                      // JUMPI
        0x58 | 0x59 => Supported(0, 1),               // PC MSIZE
        0x5a => Unsupported,                          // GAS
        0x5b => Supported(0, 0),                      // JUMPDEST
        0x5c => Supported(1, 1),                      // TLOAD
        0x5d => Supported(2, 0),                      // TSTORE
        0x5e => Supported(3, 0),                      // MCOPY
        0x5f..=0x7f => Supported(0, 1),               // PUSH0..PUSH32
        0x80..=0x8f => {
            let n = (op - 0x7f) as usize;             // DUPn
            Supported(n, n + 1)
        }
        0x90..=0x9f => {
            let n = (op - 0x8f) as usize + 1;         // SWAPn touches n+1 items
            Supported(n, n)
        }
        0xa0..=0xa4 => Unsupported,                   // LOG0..LOG4
        0xf0 | 0xf1 | 0xf2 | 0xf4 | 0xf5 | 0xfa | 0xff => Unsupported,
        0xf3 | 0xfd => Supported(2, 0),               // RETURN REVERT
        _ => Undefined,                               // includes 0xfe
    }
}

// ---------------------------------------------------------------------------------------
// Word helpers
// ---------------------------------------------------------------------------------------

pub fn u256_to_word(v: &U256) -> Word {
    let bytes = v.to_bytes_be();
    let mut out = [0u8; 32];
    let n = bytes.len().min(32);
    out[32 - n..].copy_from_slice(&bytes[bytes.len() - n..]);
    out
}

pub fn word_to_u256(w: &[u8]) -> U256 {
    BigUint::from_bytes_be(w)
}

struct Consts {
    modulus: BigUint, // 2^256
    mask: BigUint,    // 2^256 - 1
}

impl Consts {
    fn new() -> Consts {
        let modulus = BigUint::one() << 256u32;
        let mask = &modulus - BigUint::one();
        Consts { modulus, mask }
    }
    fn is_neg(&self, v: &U256) -> bool {
        v.bit(255)
    }
    /// Two's complement negation.
    fn neg(&self, v: &U256) -> U256 {
        if v.is_zero() { U256::zero() } else { &self.modulus - v }
    }
    fn abs(&self, v: &U256) -> U256 {
        if self.is_neg(v) { self.neg(v) } else { v.clone() }
    }
    fn boolean(b: bool) -> U256 {
        if b { U256::one() } else { U256::zero() }
    }
}

/// Copy `len` bytes of `src` starting at the (arbitrary 256-bit) offset, zero padded.
fn copy_padded(src: &[u8], off: &U256, len: usize) -> Vec<u8> {
    let mut out = vec![0u8; len];
    if let Some(o) = off.to_usize() {
        if o < src.len() {
            let n = len.min(src.len() - o);
            out[..n].copy_from_slice(&src[o..o + n]);
        }
    }
    out
}

fn strip_zero(m: &BTreeMap<Word, Word>) -> BTreeMap<Word, Word> {
    m.iter().filter(|(_, v)| **v != [0u8; 32]).map(|(k, v)| (*k, *v)).collect()
}

// ---------------------------------------------------------------------------------------
// Machine
// ---------------------------------------------------------------------------------------

enum Step {
    Next,
    Jump(usize),
    Halt(Halt),
}

struct Machine<'a> {
    ctx: &'a Ctx,
    k: Consts,
    dests: Vec<bool>,
    stack: Vec<U256>,
    mem: Vec<u8>,
    storage: BTreeMap<Word, Word>,
    transient: BTreeMap<Word, Word>,
    /// set when a MemoryLimit failure concerned an access ending beyond u32::MAX (or not representable)
    mem_fail_beyond_u32: std::cell::Cell<bool>,
}

impl<'a> Machine<'a> {
    fn pop(&mut self) -> U256 {
        self.stack.pop().expect("stack depth checked before dispatch")
    }
    fn push(&mut self, v: U256) {
        debug_assert!(v.bits() <= 256);
        self.stack.push(v);
    }

    /// Validate a memory access and expand memory. Zero-size accesses always succeed
    /// and never expand. Returns the start as usize (0 for empty accesses).
    fn touch(&mut self, off: &U256, size: usize) -> Result<usize, FailKind> {
        if size == 0 {
            return Ok(0);
        }
        let o = match off.to_usize() {
            Some(o) => o,
            None => {
                self.mem_fail_beyond_u32.set(true);
                return Err(FailKind::MemoryLimit);
            }
        };
        let end = match o.checked_add(size) {
            Some(e) => e,
            None => {
                self.mem_fail_beyond_u32.set(true);
                return Err(FailKind::MemoryLimit);
            }
        };
        if end > self.ctx.mem_limit {
            if end > u32::MAX as usize || size > u32::MAX as usize || o > u32::MAX as usize {
                self.mem_fail_beyond_u32.set(true);
            }
            return Err(FailKind::MemoryLimit);
        }
        let words = end / 32 + usize::from(end % 32 != 0);
        let new_len = words.checked_mul(32).ok_or(FailKind::MemoryLimit)?;
        if new_len > self.mem.len() {
            self.mem.resize(new_len, 0);
        }
        Ok(o)
    }

    /// A size operand that does not fit in usize can never be within the memory limit
    /// (and is non-zero), so it is a MemoryLimit failure.
    fn size_arg(&self, size: &U256) -> Result<usize, FailKind> {
        match size.to_usize() {
            Some(s) => Ok(s),
            None => {
                self.mem_fail_beyond_u32.set(true);
                Err(FailKind::MemoryLimit)
            }
        }
    }

    fn jump_target(&self, dest: &U256) -> Result<usize, FailKind> {
        match dest.to_usize() {
            Some(d) if d < self.dests.len() && self.dests[d] => Ok(d),
            _ => Err(FailKind::BadJump),
        }
    }

    fn exec(&mut self, op: u8, pc: usize) -> Result<Step, FailKind> {
        let ctx: &'a Ctx = self.ctx;
        let code: &'a [u8] = &ctx.code;
        match op {
            0x00 => return Ok(Step::Halt(Halt::Stop)),
            0x01 => {
                let (a, b) = (self.pop(), self.pop());
                let r = (a + b) & &self.k.mask;
                self.push(r);
            }
            0x02 => {
                let (a, b) = (self.pop(), self.pop());
                let r = (a * b) & &self.k.mask;
                self.push(r);
            }
            0x03 => {
                let (a, b) = (self.pop(), self.pop());
                let r = if a >= b { a - b } else { &self.k.modulus - b + a };
                self.push(r);
            }
            0x04 => {
                let (a, b) = (self.pop(), self.pop());
                let r = if b.is_zero() { U256::zero() } else { a / b };
                self.push(r);
            }
            0x05 => {
                let (a, b) = (self.pop(), self.pop());
                let r = if b.is_zero() {
                    U256::zero()
                } else {
                    let q = self.k.abs(&a) / self.k.abs(&b);
                    let q = if self.k.is_neg(&a) != self.k.is_neg(&b) { self.k.neg(&q) } else { q };
                    q & &self.k.mask // MIN / -1: |q| = 2^255 stays MIN
                };
                self.push(r);
            }
            0x06 => {
                let (a, b) = (self.pop(), self.pop());
                let r = if b.is_zero() { U256::zero() } else { a % b };
                self.push(r);
            }
            0x07 => {
                let (a, b) = (self.pop(), self.pop());
                let r = if b.is_zero() {
                    U256::zero()
                } else {
                    let m = self.k.abs(&a) % self.k.abs(&b);
                    if self.k.is_neg(&a) { self.k.neg(&m) } else { m }
                };
                self.push(r);
            }
            0x08 => {
                let (a, b, n) = (self.pop(), self.pop(), self.pop());
                let r = if n.is_zero() { U256::zero() } else { (a + b) % n };
                self.push(r);
            }
            0x09 => {
                let (a, b, n) = (self.pop(), self.pop(), self.pop());
                let r = if n.is_zero() { U256::zero() } else { (a * b) % n };
                self.push(r);
            }
            0x0a => {
                let (base, exp) = (self.pop(), self.pop());
                let r = base.modpow(&exp, &self.k.modulus);
                self.push(r);
            }
            0x0b => {
                let (b, x) = (self.pop(), self.pop());
                let r = match b.to_u64() {
                    Some(i) if i < 31 => {
                        let sign_bit = 8 * i + 7;
                        let low = (BigUint::one() << (sign_bit + 1)) - BigUint::one();
                        if x.bit(sign_bit) { x | (&self.k.mask ^ &low) } else { x & low }
                    }
                    _ => x,
                };
                self.push(r);
            }
            0x10 => {
                let (a, b) = (self.pop(), self.pop());
                self.push(Consts::boolean(a < b));
            }
            0x11 => {
                let (a, b) = (self.pop(), self.pop());
                self.push(Consts::boolean(a > b));
            }
            0x12 | 0x13 => {
                let (a, b) = (self.pop(), self.pop());
                let (na, nb) = (self.k.is_neg(&a), self.k.is_neg(&b));
                // Same sign: two's complement order equals unsigned order.
                let lt = if na != nb { na } else { a < b };
                let gt = if na != nb { nb } else { a > b };
                self.push(Consts::boolean(if op == 0x12 { lt } else { gt }));
            }
            0x14 => {
                let (a, b) = (self.pop(), self.pop());
                self.push(Consts::boolean(a == b));
            }
            0x15 => {
                let a = self.pop();
                self.push(Consts::boolean(a.is_zero()));
            }
            0x16 => {
                let (a, b) = (self.pop(), self.pop());
                self.push(a & b);
            }
            0x17 => {
                let (a, b) = (self.pop(), self.pop());
                self.push(a | b);
            }
            0x18 => {
                let (a, b) = (self.pop(), self.pop());
                self.push(a ^ b);
            }
            0x19 => {
                let a = self.pop();
                let r = &self.k.mask ^ a;
                self.push(r);
            }
            0x1a => {
                let (i, x) = (self.pop(), self.pop());
                let r = match i.to_u64() {
                    Some(i) if i < 32 => (x >> (8 * (31 - i))) & BigUint::from(0xffu32),
                    _ => U256::zero(),
                };
                self.push(r);
            }
            0x1b => {
                let (s, v) = (self.pop(), self.pop());
                let r = match s.to_u64() {
                    Some(s) if s < 256 => (v << s) & &self.k.mask,
                    _ => U256::zero(),
                };
                self.push(r);
            }
            0x1c => {
                let (s, v) = (self.pop(), self.pop());
                let r = match s.to_u64() {
                    Some(s) if s < 256 => v >> s,
                    _ => U256::zero(),
                };
                self.push(r);
            }
            0x1d => {
                let (s, v) = (self.pop(), self.pop());
                let neg = self.k.is_neg(&v);
                let r = match s.to_u64() {
                    Some(s) if s < 256 => {
                        if neg {
                            let fill = &self.k.mask ^ (&self.k.mask >> s);
                            (v >> s) | fill
                        } else {
                            v >> s
                        }
                    }
                    _ => {
                        if neg { self.k.mask.clone() } else { U256::zero() }
                    }
                };
                self.push(r);
            }
            0x1e => {
                let a = self.pop();
                self.push(U256::from(256u64 - a.bits()));
            }
            0x20 => {
                let (off, size) = (self.pop(), self.pop());
                let size = self.size_arg(&size)?;
                let o = self.touch(&off, size)?;
                let h = keccak256(&self.mem[o..o + size]);
                self.push(word_to_u256(&h));
            }
            0x35 => {
                let off = self.pop();
                let w = copy_padded(&self.ctx.calldata, &off, 32);
                self.push(word_to_u256(&w));
            }
            0x36 => self.push(U256::from(self.ctx.calldata.len())),
            0x37 | 0x39 => {
                let (dst, src, size) = (self.pop(), self.pop(), self.pop());
                let size = self.size_arg(&size)?;
                let d = self.touch(&dst, size)?;
                let source: &[u8] = if op == 0x37 { &ctx.calldata } else { code };
                let data = copy_padded(source, &src, size);
                self.mem[d..d + size].copy_from_slice(&data);
            }
            0x38 => self.push(U256::from(code.len())),
            0x50 => {
                self.pop();
            }
            0x51 => {
                let off = self.pop();
                let o = self.touch(&off, 32)?;
                let v = word_to_u256(&self.mem[o..o + 32]);
                self.push(v);
            }
            0x52 => {
                let (off, v) = (self.pop(), self.pop());
                let o = self.touch(&off, 32)?;
                self.mem[o..o + 32].copy_from_slice(&u256_to_word(&v));
            }
            0x53 => {
                let (off, v) = (self.pop(), self.pop());
                let o = self.touch(&off, 1)?;
                self.mem[o] = u256_to_word(&v)[31];
            }
            0x54 | 0x5c => {
                let key = u256_to_word(&self.pop());
                let map = if op == 0x54 { &self.storage } else { &self.transient };
                let v = map.get(&key).map(|w| word_to_u256(w)).unwrap_or_else(U256::zero);
                self.push(v);
            }
            0x55 | 0x5d => {
                let (key, v) = (u256_to_word(&self.pop()), self.pop());
                let map = if op == 0x55 { &mut self.storage } else { &mut self.transient };
                if v.is_zero() {
                    map.remove(&key);
                } else {
                    map.insert(key, u256_to_word(&v));
                }
            }
            0x56 => {
                let dest = self.pop();
                return Ok(Step::Jump(self.jump_target(&dest)?));
            }
            0x57 => {
                let (dest, cond) = (self.pop(), self.pop());
                if !cond.is_zero() {
                    return Ok(Step::Jump(self.jump_target(&dest)?));
                }
            }
            0x58 => self.push(U256::from(pc)),
            0x59 => self.push(U256::from(self.mem.len())),
            0x5b => {}
            0x5e => {
                let (dst, src, size) = (self.pop(), self.pop(), self.pop());
                let size = self.size_arg(&size)?;
                if size != 0 {
                    let d = self.touch(&dst, size)?;
                    let s = self.touch(&src, size)?;
                    self.mem.copy_within(s..s + size, d);
                }
            }
            0x5f => self.push(U256::zero()),
            0x60..=0x7f => {
                let n = (op - 0x5f) as usize;
                let mut imm = vec![0u8; n];
                let start = pc + 1;
                if start < code.len() {
                    let avail = n.min(code.len() - start);
                    imm[..avail].copy_from_slice(&code[start..start + avail]);
                }
                self.push(word_to_u256(&imm));
            }
            0x80..=0x8f => {
                let n = (op - 0x7f) as usize;
                let v = self.stack[self.stack.len() - n].clone();
                self.push(v);
            }
            0x90..=0x9f => {
                let n = (op - 0x8f) as usize;
                let top = self.stack.len() - 1;
                self.stack.swap(top, top - n);
            }
            0xf3 | 0xfd => {
                let (off, size) = (self.pop(), self.pop());
                let size = self.size_arg(&size)?;
                let o = self.touch(&off, size)?;
                let data = self.mem[o..o + size].to_vec();
                return Ok(Step::Halt(if op == 0xf3 { Halt::Return(data) } else { Halt::Revert(data) }));
            }
            _ => unreachable!("classify() only lets supported opcodes through"),
        }
        Ok(Step::Next)
    }

}

pub fn run(ctx: &Ctx) -> Outcome {
    let mut m = Machine {
        ctx,
        k: Consts::new(),
        dests: jumpdests(&ctx.code),
        stack: Vec::with_capacity(64),
        mem: Vec::new(),
        storage: ctx.storage.clone(),
        transient: ctx.transient.clone(),
        mem_fail_beyond_u32: std::cell::Cell::new(false),
    };
    let mut steps: u64 = 0;
    let mut pcs: Vec<u32> = Vec::new();
    let mut jumps: Vec<(u32, u32)> = Vec::new();
    let mut max_stack = 0usize;
    let mut seen = [false; 256];
    let mut pc = 0usize;

    let halt = loop {
        if pc >= ctx.code.len() {
            break Halt::Stop; // ran off the end: implicit STOP, not a step
        }
        if steps >= ctx.step_limit {
            break Halt::StepLimit;
        }
        let op = ctx.code[pc];
        steps += 1;
        if pcs.len() < PCS_CAP {
            pcs.push(pc as u32);
        }
        seen[op as usize] = true;

        let (need, leave) = match classify(op) {
            OpClass::Supported(n, l) => (n, l),
            OpClass::Unsupported => break Halt::Unsupported(op, pc),
            OpClass::Undefined => break Halt::Failure(FailKind::InvalidOpcode),
        };
        if m.stack.len() < need {
            break Halt::Failure(FailKind::StackUnderflow);
        }
        if m.stack.len() - need + leave > STACK_LIMIT {
            break Halt::Failure(FailKind::StackOverflow);
        }
        match m.exec(op, pc) {
            Err(kind) => break Halt::Failure(kind),
            Ok(Step::Halt(h)) => break h,
            Ok(Step::Jump(to)) => {
                jumps.push((pc as u32, to as u32));
                pc = to;
            }
            Ok(Step::Next) => {
                pc += 1;
                if (0x60..=0x7f).contains(&op) {
                    pc += (op - 0x5f) as usize;
                }
            }
        }
        max_stack = max_stack.max(m.stack.len());
    };

    let rollback = matches!(halt, Halt::Revert(_) | Halt::Failure(_));
    let (storage, transient) = if rollback {
        (ctx.storage.clone(), ctx.transient.clone())
    } else {
        (strip_zero(&m.storage), strip_zero(&m.transient))
    };
    Outcome {
        halt,
        storage,
        transient,
        steps,
        pcs,
        jumps,
        max_stack,
        mem_size: m.mem.len(),
        mem_fail_beyond_u32: m.mem_fail_beyond_u32.get(),
        opcodes_seen: seen,
    }
}

// ---------------------------------------------------------------------------------------
// Tests
// ---------------------------------------------------------------------------------------

#[cfg(test)]
mod tests {
    use super::*;

    fn hex(s: &str) -> Vec<u8> {
        let s: Vec<u8> = s.bytes().filter(|c| !c.is_ascii_whitespace()).collect();
        assert!(s.len() % 2 == 0);
        s.chunks(2)
            .map(|p| u8::from_str_radix(std::str::from_utf8(p).unwrap(), 16).unwrap())
            .collect()
    }
    fn u(n: u128) -> U256 {
        U256::from(n)
    }
    fn max() -> U256 {
        (U256::one() << 256u32) - U256::one()
    }
    fn min_neg() -> U256 {
        U256::one() << 255u32
    }
    /// Two's complement of a small positive number.
    fn neg(n: u128) -> U256 {
        (U256::one() << 256u32) - u(n)
    }
    fn word(n: u128) -> Word {
        u256_to_word(&u(n))
    }
    fn push(v: &U256) -> Vec<u8> {
        let mut c = vec![0x7f];
        c.extend_from_slice(&u256_to_word(v));
        c
    }
    fn cat(parts: &[&[u8]]) -> Vec<u8> {
        parts.iter().flat_map(|p| p.iter().copied()).collect()
    }
    /// PUSH0 MSTORE PUSH1 32 PUSH0 RETURN: return the top of the stack as a word.
    const RET_TOP: [u8; 6] = [0x5f, 0x52, 0x60, 0x20, 0x5f, 0xf3];

    fn run_code(code: Vec<u8>) -> Outcome {
        run(&Ctx::new(code))
    }
    fn eval(code: Vec<u8>) -> U256 {
        let out = run_code(cat(&[&code, &RET_TOP]));
        match out.halt {
            Halt::Return(d) => {
                assert_eq!(d.len(), 32);
                word_to_u256(&d)
            }
            h => panic!("expected Return, got {:?}", h),
        }
    }
    /// `a` ends up on top of the stack (first operand).
    fn bin(op: u8, a: &U256, b: &U256) -> U256 {
        eval(cat(&[&push(b), &push(a), &[op]]))
    }
    fn tri(op: u8, a: &U256, b: &U256, c: &U256) -> U256 {
        eval(cat(&[&push(c), &push(b), &push(a), &[op]]))
    }
    fn un(op: u8, a: &U256) -> U256 {
        eval(cat(&[&push(a), &[op]]))
    }

    // ---- keccak ----

    #[test]
    fn keccak_empty() {
        assert_eq!(
            keccak256(b"").to_vec(),
            hex("c5d2460186f7233c927e7db2dcc703c0e500b653ca82273b7bfad8045d85a470")
        );
    }

    #[test]
    fn keccak_abc() {
        assert_eq!(
            keccak256(b"abc").to_vec(),
            hex("4e03657aea45a94fc7d47ba826c8d667c0d1e6e33a64a036ec44f58fa12d6c45")
        );
    }

    #[test]
    fn keccak_well_known_values() {
        assert_eq!(
            keccak256(b"hello").to_vec(),
            hex("1c8aff950685c2ed4bc3174f3472287b56d9517b9c948127319a09a7a36deac8")
        );
        assert_eq!(
            keccak256(&[0u8; 32]).to_vec(),
            hex("290decd9548b62a8d60345a988386fc84ba6bc95484008f6362f93160ef3e563")
        );
        assert_eq!(keccak256(b"transfer(address,uint256)")[..4].to_vec(), hex("a9059cbb"));
    }

    #[test]
    fn keccak_round_constants_match_spec() {
        let rc = keccak_round_constants();
        assert_eq!(rc[0], 0x0000000000000001);
        assert_eq!(rc[1], 0x0000000000008082);
        assert_eq!(rc[2], 0x800000000000808a);
        assert_eq!(rc[23], 0x8000000080008008);
    }

    /// The sponge/permutation is cross-checked against NIST SHA3-256 (same permutation,
    /// padding byte 0x06) on inputs around and beyond the 136-byte rate. Reference values
    /// from Python hashlib.sha3_256 over bytes((i*7+3)&0xff for i in range(n)).
    #[test]
    fn sponge_multi_block_matches_sha3_reference() {
        let cases = [
            (135usize, "d9dcf1f98e49a79b0643a9e68fef48079ff8777c5e7e7f93469ded65f192ac71"),
            (136, "743bd32e775ac7387a57d4d574c89ddef5ebcb08bb5cc6b88c55a27b5035cc45"),
            (137, "01d47e8d6dce6e3dcbf1baa6f845b6ace4ef74bd17da8176ecc49bc35dbe5d21"),
            (200, "9da37ea2fb33acd563a014f50d6f7cc225f25577a81d900452b72b5de98f239d"),
            (272, "ddeb5151c079739970e780e6257d0c4d52d83bf82c6aa8d47d5195530b5d5f4b"),
            (300, "064af3405aacb53d5d77ee858fec1e6e225480de3f14f06444e2b33d92d61879"),
        ];
        for (n, want) in cases {
            let d: Vec<u8> = (0..n).map(|i| ((i * 7 + 3) & 0xff) as u8).collect();
            assert_eq!(keccak_sponge_256(&d, 0x06).to_vec(), hex(want), "n={}", n);
        }
    }

    #[test]
    fn keccak_long_input_crossing_rate() {
        // 200 bytes > 136-byte rate. The same sponge is validated against SHA3-256 reference
        // values above; this pins the Ethereum-padded digest and checks block-boundary sanity.
        let d: Vec<u8> = (0..200usize).map(|i| ((i * 7 + 3) & 0xff) as u8).collect();
        let h = keccak256(&d);
        assert_ne!(h, keccak_sponge_256(&d, 0x06));
        assert_ne!(h, keccak256(&d[..199]));
        assert_eq!(h.to_vec(), hex(KECCAK_200));
        // KECCAK256 opcode over the same 200 bytes supplied as calldata.
        // CALLDATASIZE PUSH0 PUSH0 CALLDATACOPY ; CALLDATASIZE PUSH0 KECCAK256
        let code = cat(&[&[0x36, 0x5f, 0x5f, 0x37, 0x36, 0x5f, 0x20], &RET_TOP]);
        let mut ctx = Ctx::new(code);
        ctx.calldata = d;
        let out = run(&ctx);
        assert_eq!(out.halt, Halt::Return(h.to_vec()));
        assert_eq!(out.mem_size, 224);
    }
    const KECCAK_200: &str = "66d2cdf3ab4c5bd3c75add9b60b14ac5b7789534fa2da3f348853b847359a3a0";

    // ---- arithmetic ----

    #[test]
    fn add_mul_sub_wrap() {
        assert_eq!(bin(0x01, &max(), &u(1)), u(0));
        assert_eq!(bin(0x01, &max(), &max()), max() - u(1));
        assert_eq!(bin(0x02, &max(), &max()), u(1));
        assert_eq!(bin(0x02, &min_neg(), &u(2)), u(0));
        assert_eq!(bin(0x03, &u(0), &u(1)), max());
        assert_eq!(bin(0x03, &u(5), &u(3)), u(2));
        assert_eq!(bin(0x03, &u(3), &u(5)), neg(2));
    }

    #[test]
    fn div_mod_by_zero_and_basic() {
        assert_eq!(bin(0x04, &u(7), &u(0)), u(0));
        assert_eq!(bin(0x04, &u(7), &u(2)), u(3));
        assert_eq!(bin(0x04, &u(2), &u(7)), u(0));
        assert_eq!(bin(0x06, &u(7), &u(0)), u(0));
        assert_eq!(bin(0x06, &u(7), &u(4)), u(3));
        assert_eq!(bin(0x05, &neg(7), &u(0)), u(0));
        assert_eq!(bin(0x07, &neg(7), &u(0)), u(0));
    }

    #[test]
    fn sdiv_signs_and_min_overflow() {
        assert_eq!(bin(0x05, &neg(7), &u(2)), neg(3)); // truncates toward zero
        assert_eq!(bin(0x05, &u(7), &neg(2)), neg(3));
        assert_eq!(bin(0x05, &neg(7), &neg(2)), u(3));
        assert_eq!(bin(0x05, &min_neg(), &neg(1)), min_neg());
        assert_eq!(bin(0x05, &min_neg(), &u(1)), min_neg());
        assert_eq!(bin(0x05, &neg(1), &min_neg()), u(0));
    }

    #[test]
    fn smod_sign_follows_dividend() {
        assert_eq!(bin(0x07, &neg(7), &u(3)), neg(1));
        assert_eq!(bin(0x07, &u(7), &neg(3)), u(1));
        assert_eq!(bin(0x07, &neg(7), &neg(3)), neg(1));
        assert_eq!(bin(0x07, &neg(6), &u(3)), u(0));
        assert_eq!(bin(0x07, &min_neg(), &neg(1)), u(0));
    }

    #[test]
    fn addmod_mulmod_no_wraparound() {
        // sums/products are taken over the integers, not mod 2^256
        assert_eq!(tri(0x08, &max(), &u(2), &u(2)), u(1)); // (2^256+1) mod 2 = 1; wrapped would be 1 mod 2 = 1
        assert_eq!(tri(0x08, &max(), &u(1), &u(3)), u(1)); // 2^256 mod 3 = 1; wrapped would be 0
        assert_eq!(tri(0x08, &max(), &max(), &max()), u(0));
        assert_eq!(tri(0x08, &u(5), &u(6), &u(0)), u(0));
        assert_eq!(tri(0x09, &max(), &max(), &u(12)), u(9)); // (2^256-1)^2 mod 12: 2^256 mod 12 = 4 -> 3*3 = 9
        assert_eq!(tri(0x09, &max(), &max(), &max()), u(0));
        assert_eq!(tri(0x09, &max(), &u(2), &min_neg()), min_neg() - u(2));
        assert_eq!(tri(0x09, &u(5), &u(6), &u(0)), u(0));
        assert_eq!(tri(0x09, &u(5), &u(6), &u(7)), u(2));
    }

    #[test]
    fn exp_mod_2_256() {
        assert_eq!(bin(0x0a, &u(2), &u(255)), min_neg());
        assert_eq!(bin(0x0a, &u(2), &u(256)), u(0));
        assert_eq!(bin(0x0a, &u(0), &u(0)), u(1));
        assert_eq!(bin(0x0a, &u(0), &u(5)), u(0));
        assert_eq!(bin(0x0a, &u(3), &u(5)), u(243));
        assert_eq!(bin(0x0a, &max(), &u(2)), u(1));
        assert_eq!(bin(0x0a, &max(), &max()), max()); // (-1)^odd = -1
        assert_eq!(bin(0x0a, &u(7), &max()) .bit(0), true);
    }

    #[test]
    fn signextend_cases() {
        assert_eq!(bin(0x0b, &u(0), &u(0xff)), max());
        assert_eq!(bin(0x0b, &u(0), &u(0x7f)), u(0x7f));
        assert_eq!(bin(0x0b, &u(0), &u(0x1234_80)), neg(0x80));
        assert_eq!(bin(0x0b, &u(1), &u(0xaa_8000)), neg(0x8000));
        assert_eq!(bin(0x0b, &u(1), &u(0xaa_7fff)), u(0x7fff));
        assert_eq!(bin(0x0b, &u(30), &(U256::one() << 247u32)), (max() >> 247u32) << 247u32);
        // index >= 31 leaves the value unchanged
        assert_eq!(bin(0x0b, &u(31), &u(0xff)), u(0xff));
        assert_eq!(bin(0x0b, &u(32), &min_neg()), min_neg());
        assert_eq!(bin(0x0b, &max(), &u(0x80)), u(0x80));
    }

    #[test]
    fn comparisons_unsigned_and_signed() {
        assert_eq!(bin(0x10, &u(1), &u(2)), u(1));
        assert_eq!(bin(0x10, &u(2), &u(1)), u(0));
        assert_eq!(bin(0x10, &u(2), &u(2)), u(0));
        assert_eq!(bin(0x11, &max(), &u(0)), u(1));
        assert_eq!(bin(0x11, &u(0), &max()), u(0));
        // signed: -1 < 0, MIN < MAXPOS, -2 < -1
        assert_eq!(bin(0x12, &neg(1), &u(0)), u(1));
        assert_eq!(bin(0x12, &u(0), &neg(1)), u(0));
        assert_eq!(bin(0x12, &min_neg(), &(min_neg() - u(1))), u(1));
        assert_eq!(bin(0x12, &neg(2), &neg(1)), u(1));
        assert_eq!(bin(0x12, &neg(1), &neg(1)), u(0));
        assert_eq!(bin(0x13, &u(0), &neg(1)), u(1));
        assert_eq!(bin(0x13, &neg(1), &neg(2)), u(1));
        assert_eq!(bin(0x13, &neg(1), &u(1)), u(0));
        assert_eq!(bin(0x14, &u(5), &u(5)), u(1));
        assert_eq!(bin(0x14, &u(5), &u(6)), u(0));
        assert_eq!(un(0x15, &u(0)), u(1));
        assert_eq!(un(0x15, &min_neg()), u(0));
    }

    #[test]
    fn bitwise_ops() {
        assert_eq!(bin(0x16, &u(0b1100), &u(0b1010)), u(0b1000));
        assert_eq!(bin(0x17, &u(0b1100), &u(0b1010)), u(0b1110));
        assert_eq!(bin(0x18, &u(0b1100), &u(0b1010)), u(0b0110));
        assert_eq!(bin(0x18, &max(), &max()), u(0));
        assert_eq!(un(0x19, &u(0)), max());
        assert_eq!(un(0x19, &max()), u(0));
        assert_eq!(un(0x19, &u(1)), max() - u(1));
    }

    #[test]
    fn byte_indexing() {
        let v = word_to_u256(&hex("000102030405060708090a0b0c0d0e0f101112131415161718191a1b1c1d1e1f"));
        assert_eq!(bin(0x1a, &u(0), &v), u(0));
        assert_eq!(bin(0x1a, &u(1), &v), u(1));
        assert_eq!(bin(0x1a, &u(31), &v), u(0x1f));
        assert_eq!(bin(0x1a, &u(32), &v), u(0));
        assert_eq!(bin(0x1a, &max(), &max()), u(0));
        assert_eq!(bin(0x1a, &u(0), &max()), u(0xff));
    }

    #[test]
    fn shifts() {
        assert_eq!(bin(0x1b, &u(1), &u(1)), u(2));
        assert_eq!(bin(0x1b, &u(255), &u(1)), min_neg());
        assert_eq!(bin(0x1b, &u(255), &u(3)), min_neg());
        assert_eq!(bin(0x1b, &u(256), &u(1)), u(0));
        assert_eq!(bin(0x1b, &max(), &max()), u(0));
        assert_eq!(bin(0x1b, &u(0), &max()), max());
        assert_eq!(bin(0x1c, &u(1), &u(2)), u(1));
        assert_eq!(bin(0x1c, &u(255), &max()), u(1));
        assert_eq!(bin(0x1c, &u(256), &max()), u(0));
        assert_eq!(bin(0x1c, &(U256::one() << 64u32), &max()), u(0));
        assert_eq!(bin(0x1c, &u(0), &max()), max());
    }

    #[test]
    fn sar_sign_fill() {
        assert_eq!(bin(0x1d, &u(1), &neg(2)), neg(1));
        assert_eq!(bin(0x1d, &u(1), &neg(3)), neg(2)); // rounds toward -inf
        assert_eq!(bin(0x1d, &u(4), &min_neg()), (max() >> 251u32) << 251u32);
        assert_eq!(bin(0x1d, &u(255), &min_neg()), max());
        assert_eq!(bin(0x1d, &u(256), &min_neg()), max());
        assert_eq!(bin(0x1d, &max(), &neg(1)), max());
        assert_eq!(bin(0x1d, &u(256), &(min_neg() - u(1))), u(0));
        assert_eq!(bin(0x1d, &max(), &u(12345)), u(0));
        assert_eq!(bin(0x1d, &u(254), &(min_neg() - u(1))), u(1));
        assert_eq!(bin(0x1d, &u(0), &neg(5)), neg(5));
    }

    #[test]
    fn clz_eip7939() {
        assert_eq!(un(0x1e, &u(0)), u(256));
        assert_eq!(un(0x1e, &u(1)), u(255));
        assert_eq!(un(0x1e, &u(0xff)), u(248));
        assert_eq!(un(0x1e, &min_neg()), u(0));
        assert_eq!(un(0x1e, &max()), u(0));
        assert_eq!(un(0x1e, &(min_neg() - u(1))), u(1));
    }

    // ---- memory ----

    #[test]
    fn memory_expansion_and_msize() {
        // MSIZE on fresh memory is 0
        assert_eq!(eval(vec![0x59]), u(0));
        // MLOAD at 0 expands to 32; MLOAD at 1 expands to 64; MSTORE8 at 64 expands to 96
        assert_eq!(eval(vec![0x5f, 0x51, 0x50, 0x59]), u(32));
        assert_eq!(eval(vec![0x60, 0x01, 0x51, 0x50, 0x59]), u(64));
        assert_eq!(eval(vec![0x60, 0xff, 0x60, 0x40, 0x53, 0x59]), u(96));
        // MSTORE at 31 touches bytes 31..63 => 64
        assert_eq!(eval(vec![0x60, 0x01, 0x60, 0x1f, 0x52, 0x59]), u(64));
        let out = run_code(vec![0x60, 0x01, 0x60, 0x1f, 0x52]);
        assert_eq!(out.halt, Halt::Stop);
        assert_eq!(out.mem_size, 64);
    }

    #[test]
    fn mstore_mload_mstore8_layout() {
        // MSTORE 0x..01 at offset 0 then MLOAD at offset 1 => value shifted left by 8 bits
        assert_eq!(eval(vec![0x60, 0x01, 0x5f, 0x52, 0x60, 0x01, 0x51]), u(0x100));
        // MSTORE8 stores only the low byte
        let v = eval(vec![0x61, 0xab, 0xcd, 0x5f, 0x53, 0x5f, 0x51]);
        assert_eq!(v, u(0xcd) << 248u32);
    }

    #[test]
    fn zero_size_access_never_expands_or_fails() {
        let huge = push(&max());
        // RETURN(max, 0)
        let out = run_code(cat(&[&[0x5f], &huge, &[0xf3]]));
        assert_eq!(out.halt, Halt::Return(vec![]));
        assert_eq!(out.mem_size, 0);
        // REVERT(max, 0)
        let out = run_code(cat(&[&[0x5f], &huge, &[0xfd]]));
        assert_eq!(out.halt, Halt::Revert(vec![]));
        // KECCAK256(max, 0) = keccak("")
        assert_eq!(eval(cat(&[&[0x5f], &huge, &[0x20]])), word_to_u256(&keccak256(b"")));
        // CALLDATACOPY(max, max, 0), CODECOPY(max, max, 0), MCOPY(max, max, 0), then MSIZE
        for op in [0x37u8, 0x39, 0x5e] {
            assert_eq!(eval(cat(&[&[0x5f], &huge, &huge, &[op, 0x59]])), u(0), "op {:#x}", op);
        }
    }

    #[test]
    fn memory_limit_enforced() {
        let mut ctx = Ctx::new(vec![0x60, 0x01, 0x60, 0x60, 0x52]); // MSTORE at 96 -> end 128
        ctx.mem_limit = 128;
        assert_eq!(run(&ctx).halt, Halt::Stop);
        ctx.mem_limit = 127;
        assert_eq!(run(&ctx).halt, Halt::Failure(FailKind::MemoryLimit));
        // huge offset
        let out = run_code(cat(&[&push(&max()), &[0x51]]));
        assert_eq!(out.halt, Halt::Failure(FailKind::MemoryLimit));
        // offset 2^64 (does not fit usize) with MSTORE8
        let out = run_code(cat(&[&[0x5f], &push(&(U256::one() << 64u32)), &[0x53]]));
        assert_eq!(out.halt, Halt::Failure(FailKind::MemoryLimit));
        // huge size with zero offset: RETURN(0, max)
        let out = run_code(cat(&[&push(&max()), &[0x5f, 0xf3]]));
        assert_eq!(out.halt, Halt::Failure(FailKind::MemoryLimit));
        // offset + size overflowing usize
        let out = run_code(cat(&[&push(&U256::from(u64::MAX)), &push(&U256::from(u64::MAX)), &[0x20]]));
        assert_eq!(out.halt, Halt::Failure(FailKind::MemoryLimit));
        // MCOPY where only the source range exceeds the limit
        let mut ctx = Ctx::new(vec![0x60, 0x20, 0x60, 0x41, 0x5f, 0x5e]); // MCOPY(dst 0, src 65, len 32)
        ctx.mem_limit = 96;
        assert_eq!(run(&ctx).halt, Halt::Failure(FailKind::MemoryLimit));
        ctx.mem_limit = 97;
        let out = run(&ctx);
        assert_eq!(out.halt, Halt::Stop);
        assert_eq!(out.mem_size, 128);
    }

    #[test]
    fn mcopy_overlap_forward_and_backward() {
        // memory[0..32] = 00 01 02 .. 1f
        let pat = word_to_u256(&hex("000102030405060708090a0b0c0d0e0f101112131415161718191a1b1c1d1e1f"));
        let setup = cat(&[&push(&pat), &[0x5f, 0x52]]);
        // MCOPY(dst=1, src=0, len=8): dst after src (overlap) -> bytes 1..9 = 00..07
        let code = cat(&[&setup, &[0x60, 0x08, 0x5f, 0x60, 0x01, 0x5e, 0x5f, 0x51]]);
        assert_eq!(
            eval(code),
            word_to_u256(&hex("000001020304050607090a0b0c0d0e0f101112131415161718191a1b1c1d1e1f"))
        );
        // MCOPY(dst=0, src=1, len=8): dst before src (overlap) -> bytes 0..8 = 01..08
        let code = cat(&[&setup, &[0x60, 0x08, 0x60, 0x01, 0x5f, 0x5e, 0x5f, 0x51]]);
        assert_eq!(
            eval(code),
            word_to_u256(&hex("010203040506070808090a0b0c0d0e0f101112131415161718191a1b1c1d1e1f"))
        );
        // MCOPY expands memory for the source range as well: MCOPY(0, 64, 1) => MSIZE 96
        assert_eq!(eval(vec![0x60, 0x01, 0x60, 0x40, 0x5f, 0x5e, 0x59]), u(96));
        // and for the destination range: MCOPY(100, 0, 1) => MSIZE 128
        assert_eq!(eval(vec![0x60, 0x01, 0x5f, 0x60, 0x64, 0x5e, 0x59]), u(128));
    }

    // ---- calldata / code ----

    #[test]
    fn calldataload_zero_pads_and_accepts_any_offset() {
        let mk = |code: Vec<u8>| {
            let mut ctx = Ctx::new(cat(&[&code, &RET_TOP]));
            ctx.calldata = vec![0x11, 0x22, 0x33];
            match run(&ctx).halt {
                Halt::Return(d) => word_to_u256(&d),
                h => panic!("{:?}", h),
            }
        };
        assert_eq!(mk(vec![0x5f, 0x35]), u(0x112233) << 232u32);
        assert_eq!(mk(vec![0x60, 0x02, 0x35]), u(0x33) << 248u32);
        assert_eq!(mk(vec![0x60, 0x03, 0x35]), u(0));
        assert_eq!(mk(cat(&[&push(&max()), &[0x35]])), u(0));
        assert_eq!(mk(vec![0x36]), u(3));
    }

    #[test]
    fn calldatacopy_zero_pads() {
        // pre-fill memory word 0 with ff..ff, then CALLDATACOPY(dst 1, src 1, len 4)
        let code = cat(&[&push(&max()), &[0x5f, 0x52, 0x60, 0x04, 0x60, 0x01, 0x60, 0x01, 0x37, 0x5f, 0x51], &RET_TOP]);
        let mut ctx = Ctx::new(code);
        ctx.calldata = vec![0x11, 0x22, 0x33];
        let want = hex("ff22330000ffffffffffffffffffffffffffffffffffffffffffffffffffffff");
        assert_eq!(run(&ctx).halt, Halt::Return(want));
        // huge source offset: all zeros
        let code = cat(&[&push(&max()), &[0x5f, 0x52, 0x60, 0x02], &push(&max()), &[0x5f, 0x37, 0x5f, 0x51], &RET_TOP]);
        ctx.code = code;
        let want = hex("0000ffffffffffffffffffffffffffffffffffffffffffffffffffffffffffff");
        assert_eq!(run(&ctx).halt, Halt::Return(want));
    }

    #[test]
    fn codesize_and_codecopy() {
        assert_eq!(eval(vec![0x38]), u(7)); // 1 + RET_TOP
        // CODECOPY(dst 0, src 0, len 32) with code shorter than 32 bytes => zero padded
        let code = vec![0x60, 0x20, 0x5f, 0x5f, 0x39, 0x60, 0x20, 0x5f, 0xf3];
        let mut want = code.clone();
        want.resize(32, 0);
        assert_eq!(run_code(code).halt, Halt::Return(want));
        // source offset past the end
        let code = cat(&[&push(&max()), &[0x5f, 0x52, 0x60, 0x03, 0x61, 0xff, 0xff, 0x5f, 0x39, 0x60, 0x04, 0x5f, 0xf3]]);
        assert_eq!(run_code(code).halt, Halt::Return(vec![0, 0, 0, 0xff]));
    }

    #[test]
    fn keccak_opcode_reads_memory_and_expands() {
        // keccak of 32 zero bytes from untouched memory
        let out = run_code(cat(&[&[0x60, 0x20, 0x5f, 0x20], &RET_TOP]));
        assert_eq!(
            out.halt,
            Halt::Return(hex("290decd9548b62a8d60345a988386fc84ba6bc95484008f6362f93160ef3e563"))
        );
        // "abc" stored at memory 0..3 via MSTORE8
        let code = vec![0x60, 0x61, 0x5f, 0x53, 0x60, 0x62, 0x60, 0x01, 0x53, 0x60, 0x63, 0x60, 0x02, 0x53, 0x60, 0x03, 0x5f, 0x20];
        assert_eq!(eval(code), word_to_u256(&keccak256(b"abc")));
        // KECCAK256(33, 32) expands to 96
        assert_eq!(eval(vec![0x60, 0x20, 0x60, 0x21, 0x20, 0x50, 0x59]), u(96));
    }

    // ---- control flow ----

    #[test]
    fn jumpdest_analysis_skips_push_data() {
        // PUSH1 5b ; JUMPDEST ; PUSH2 5b 5b ; JUMPDEST ; PUSH32 (truncated) 5b
        let code = vec![0x60, 0x5b, 0x5b, 0x61, 0x5b, 0x5b, 0x5b, 0x7f, 0x5b];
        assert_eq!(
            jumpdests(&code),
            vec![false, false, true, false, false, false, true, false, false]
        );
        assert_eq!(jumpdests(&[]), Vec::<bool>::new());
        assert_eq!(jumpdests(&[0x5f, 0x5b]), vec![false, true]); // PUSH0 has no immediate
    }

    #[test]
    fn jump_to_valid_dest_and_trace() {
        // 0: PUSH1 4 ; 2: JUMP ; 3: INVALID ; 4: JUMPDEST ; 5: PUSH1 7 ; RET_TOP
        let out = run_code(cat(&[&[0x60, 0x04, 0x56, 0xfe, 0x5b, 0x60, 0x07], &RET_TOP]));
        assert_eq!(out.halt, Halt::Return(word(7).to_vec()));
        assert_eq!(out.jumps, vec![(2, 4)]);
        assert_eq!(out.pcs, vec![0, 2, 4, 5, 7, 8, 9, 11, 12]);
        assert_eq!(out.steps, 9);
        assert!(out.opcodes_seen[0x56] && out.opcodes_seen[0x5b] && !out.opcodes_seen[0xfe]);
    }

    #[test]
    fn jump_into_push_data_rejected() {
        // 0: PUSH1 4 ; 2: JUMP ; 3: PUSH1 0x5b ; 5: STOP  -- byte 4 is 0x5b but is push data
        let out = run_code(vec![0x60, 0x04, 0x56, 0x60, 0x5b, 0x00]);
        assert_eq!(out.halt, Halt::Failure(FailKind::BadJump));
        assert!(out.jumps.is_empty());
        // same through JUMPI with non-zero condition
        let out = run_code(vec![0x60, 0x01, 0x60, 0x06, 0x57, 0x60, 0x5b, 0x00]);
        assert_eq!(out.halt, Halt::Failure(FailKind::BadJump));
    }

    #[test]
    fn bad_jump_destinations() {
        // to a non-JUMPDEST opcode
        assert_eq!(run_code(vec![0x5f, 0x56]).halt, Halt::Failure(FailKind::BadJump));
        // past the end of code
        assert_eq!(run_code(vec![0x60, 0x10, 0x56, 0x5b]).halt, Halt::Failure(FailKind::BadJump));
        // exactly code.len()
        assert_eq!(run_code(vec![0x60, 0x04, 0x56, 0x5b]).halt, Halt::Failure(FailKind::BadJump));
        // huge destination whose low bits would be a valid JUMPDEST
        let dest = (U256::one() << 64u32) + u(34);
        let out = run_code(cat(&[&push(&dest), &[0x56, 0x5b]]));
        assert_eq!(out.halt, Halt::Failure(FailKind::BadJump));
        let dest = (U256::one() << 32u32) + u(34);
        let out = run_code(cat(&[&push(&dest), &[0x56, 0x5b]]));
        assert_eq!(out.halt, Halt::Failure(FailKind::BadJump));
    }

    #[test]
    fn jumpi_semantics() {
        // cond zero: falls through and does NOT validate the (bad) destination
        let out = run_code(cat(&[&[0x5f, 0x60, 0xff, 0x57, 0x60, 0x09], &RET_TOP]));
        assert_eq!(out.halt, Halt::Return(word(9).to_vec()));
        assert!(out.jumps.is_empty());
        // cond non-zero (any non-zero 256-bit value): taken
        // 0: PUSH32 2^255 ; 33: PUSH1 38 ; 35: JUMPI ; 36: INVALID ; 37: INVALID ; 38: JUMPDEST ; 39: STOP
        let out = run_code(cat(&[&push(&min_neg()), &[0x60, 38, 0x57, 0xfe, 0xfe, 0x5b, 0x00]]));
        assert_eq!(out.halt, Halt::Stop);
        assert_eq!(out.jumps, vec![(35, 38)]);
    }

    #[test]
    fn loop_counts_steps_and_jumps() {
        // 0: PUSH1 3 ; 2: JUMPDEST ; 3: PUSH1 1 ; 5: SWAP1 ; 6: SUB ; 7: DUP1 ; 8: PUSH1 2 ; 10: JUMPI ; 11: STOP
        let out = run_code(vec![0x60, 0x03, 0x5b, 0x60, 0x01, 0x90, 0x03, 0x80, 0x60, 0x02, 0x57, 0x00]);
        assert_eq!(out.halt, Halt::Stop);
        assert_eq!(out.jumps, vec![(10, 2), (10, 2)]);
        assert_eq!(out.steps, 1 + 3 * 7 + 1);
        assert_eq!(out.max_stack, 3);
    }

    #[test]
    fn pc_opcode_and_running_off_end() {
        assert_eq!(eval(vec![0x5b, 0x5b, 0x58]), u(2));
        assert_eq!(eval(cat(&[&push(&u(0)), &[0x50, 0x58]])), u(34));
        let out = run_code(vec![]);
        assert_eq!((out.halt, out.steps, out.pcs.len()), (Halt::Stop, 0, 0));
        let out = run_code(vec![0x60, 0x01]);
        assert_eq!((out.halt, out.steps, out.max_stack), (Halt::Stop, 1, 1));
        // explicit STOP counts as a step
        let out = run_code(vec![0x00, 0xfe]);
        assert_eq!((out.halt, out.steps), (Halt::Stop, 1));
    }

    // ---- push / dup / swap ----

    #[test]
    fn push_widths_and_push0() {
        assert_eq!(eval(vec![0x5f]), u(0));
        assert_eq!(eval(vec![0x60, 0xab]), u(0xab));
        assert_eq!(eval(vec![0x62, 0x01, 0x02, 0x03]), u(0x010203));
        assert_eq!(eval(push(&max())), max());
        let mut c = vec![0x6f];
        c.extend_from_slice(&[0xff; 16]);
        assert_eq!(eval(c), U256::from(u128::MAX));
    }

    /// Execute the single instruction at `pc` on an empty stack and return the stack.
    fn exec_one(code: Vec<u8>, pc: usize) -> Vec<U256> {
        let ctx = Ctx::new(code);
        let mut m = Machine {
            ctx: &ctx,
            k: Consts::new(),
            dests: jumpdests(&ctx.code),
            stack: vec![],
            mem: vec![],
            storage: BTreeMap::new(),
            transient: BTreeMap::new(),
            mem_fail_beyond_u32: std::cell::Cell::new(false),
        };
        assert!(matches!(m.exec(ctx.code[pc], pc), Ok(Step::Next)));
        m.stack
    }

    #[test]
    fn truncated_push_pads_right_with_zeros() {
        // A truncated PUSH is necessarily the last instruction, so its value cannot be
        // observed by later code; inspect the machine stack directly.
        assert_eq!(exec_one(vec![0x5f, 0x61, 0xab], 1), vec![u(0xab00)]); // PUSH2 ab -> ab00
        assert_eq!(exec_one(vec![0x7f], 0), vec![u(0)]); // PUSH32 with no data
        assert_eq!(exec_one(vec![0x63, 0x01, 0x02, 0x03], 0), vec![u(0x01020300)]);
        let mut c = vec![0x7f];
        c.extend_from_slice(&[0xff; 31]);
        assert_eq!(exec_one(c, 0), vec![max() - u(0xff)]);
        // ... and execution then falls off the end: implicit STOP.
        let out = run_code(vec![0x5f, 0x61, 0xab]);
        assert_eq!((out.halt, out.steps, out.max_stack), (Halt::Stop, 2, 2));
        assert_eq!(run_code(vec![0x7f]).halt, Halt::Stop);
    }

    #[test]
    fn dup_and_swap() {
        // push 1..=17 (17 on top)
        let mut base = vec![];
        for i in 1..=17u8 {
            base.extend_from_slice(&[0x60, i]);
        }
        for n in 1..=16u8 {
            assert_eq!(eval(cat(&[&base, &[0x7f + n]])), u(18 - n as u128), "DUP{}", n);
            // SWAPn then top is the (n+1)-th item
            assert_eq!(eval(cat(&[&base, &[0x8f + n]])), u(17 - n as u128), "SWAP{}", n);
            // SWAPn, POP n items, top is now the old top
            let mut c = cat(&[&base, &[0x8f + n]]);
            c.extend(std::iter::repeat(0x50).take(n as usize));
            assert_eq!(eval(c), u(17), "SWAP{} deep", n);
        }
        // underflow: DUP2 with one item, SWAP1 with one item, SWAP16 with 16 items
        assert_eq!(run_code(vec![0x5f, 0x81]).halt, Halt::Failure(FailKind::StackUnderflow));
        assert_eq!(run_code(vec![0x5f, 0x90]).halt, Halt::Failure(FailKind::StackUnderflow));
        let mut c = vec![0x5f; 16];
        c.push(0x9f);
        assert_eq!(run_code(c).halt, Halt::Failure(FailKind::StackUnderflow));
        let mut c = vec![0x5f; 17];
        c.push(0x9f);
        assert_eq!(run_code(c).halt, Halt::Stop);
    }

    // ---- stack limits ----

    fn pushes(n: usize) -> Vec<u8> {
        vec![0x5f; n]
    }

    #[test]
    fn stack_limit_1023_1024_1025() {
        let out = run_code(pushes(1023));
        assert_eq!((out.halt, out.max_stack), (Halt::Stop, 1023));
        let out = run_code(pushes(1024));
        assert_eq!((out.halt, out.max_stack, out.steps), (Halt::Stop, 1024, 1024));
        let out = run_code(pushes(1025));
        assert_eq!(out.halt, Halt::Failure(FailKind::StackOverflow));
        assert_eq!((out.max_stack, out.steps), (1024, 1025));
        assert_eq!(out.pcs.last(), Some(&1024));
    }

    #[test]
    fn stack_overflow_via_dup_pc_msize_and_friends() {
        for op in [0x80u8, 0x8f, 0x58, 0x59, 0x36, 0x38, 0x60] {
            let mut c = pushes(1024);
            c.push(op);
            c.push(0x00);
            assert_eq!(run_code(c).halt, Halt::Failure(FailKind::StackOverflow), "op {:#x}", op);
            let mut c = pushes(1023);
            c.push(op);
            c.push(0x00);
            assert_eq!(run_code(c).halt, Halt::Stop, "op {:#x}", op);
        }
        // At 1024 items, instructions that do not grow the stack still work.
        let mut c = pushes(1024);
        c.extend_from_slice(&[0x01, 0x15, 0x51, 0x90, 0x9f, 0x5b]); // ADD ISZERO MLOAD SWAP1 SWAP16 JUMPDEST
        let out = run_code(c);
        assert_eq!((out.halt, out.max_stack), (Halt::Stop, 1024));
    }

    #[test]
    fn underflow_checked_for_every_arity() {
        let cases: &[(u8, usize)] = &[
            (0x01, 2), (0x08, 3), (0x09, 3), (0x0a, 2), (0x0b, 2), (0x15, 1), (0x19, 1), (0x1a, 2),
            (0x1d, 2), (0x1e, 1), (0x20, 2), (0x35, 1), (0x37, 3), (0x39, 3), (0x50, 1), (0x51, 1),
            (0x52, 2), (0x53, 2), (0x54, 1), (0x55, 2), (0x56, 1), (0x57, 2), (0x5c, 1), (0x5d, 2),
            (0x5e, 3), (0xf3, 2), (0xfd, 2),
        ];
        for &(op, need) in cases {
            let mut c = pushes(need - 1);
            c.push(op);
            let out = run_code(c);
            assert_eq!(out.halt, Halt::Failure(FailKind::StackUnderflow), "op {:#x}", op);
            let mut c = pushes(need);
            c.push(op);
            let out = run_code(c);
            assert!(
                !matches!(out.halt, Halt::Failure(FailKind::StackUnderflow | FailKind::StackOverflow)),
                "op {:#x} -> {:?}", op, out.halt
            );
        }
    }

    #[test]
    fn underflow_reported_before_overflow() {
        // DUP2 on a one-item stack: underflow (not overflow) -- and never both for real ops, so also
        // check the classifier directly: required <= produced + ... for all supported ops.
        assert_eq!(run_code(vec![0x5f, 0x81]).halt, Halt::Failure(FailKind::StackUnderflow));
        for op in 0..=255u8 {
            if let OpClass::Supported(need, leave) = classify(op) {
                assert!(need <= 17 && leave <= 17 && leave <= need + 1, "op {:#x}", op);
            }
        }
    }

    // ---- storage ----

    #[test]
    fn sstore_sload_and_zero_deletes() {
        // SSTORE(1, 0xaa); SSTORE(2, 0xbb); SSTORE(1, 0); SLOAD(2) ; SLOAD(1) ; ADD
        let code = vec![
            0x60, 0xaa, 0x60, 0x01, 0x55, 0x60, 0xbb, 0x60, 0x02, 0x55, 0x5f, 0x60, 0x01, 0x55, 0x60, 0x02,
            0x54, 0x60, 0x01, 0x54, 0x01,
        ];
        let out = run_code(cat(&[&code, &RET_TOP]));
        assert_eq!(out.halt, Halt::Return(word(0xbb).to_vec()));
        let mut want = BTreeMap::new();
        want.insert(word(2), word(0xbb));
        assert_eq!(out.storage, want);
        assert!(out.transient.is_empty());
    }

    #[test]
    fn sload_reads_initial_state_and_missing_is_zero() {
        let mut ctx = Ctx::new(cat(&[&[0x60, 0x07, 0x54, 0x60, 0x08, 0x54, 0x01], &RET_TOP]));
        ctx.storage.insert(word(7), word(100));
        let out = run(&ctx);
        assert_eq!(out.halt, Halt::Return(word(100).to_vec()));
        assert_eq!(out.storage, ctx.storage);
        // deleting a pre-existing key
        let mut ctx2 = Ctx::new(vec![0x5f, 0x60, 0x07, 0x55]);
        ctx2.storage.insert(word(7), word(100));
        ctx2.storage.insert(word(9), [0u8; 32]); // zero entry in the input is dropped on success
        let out = run(&ctx2);
        assert_eq!(out.halt, Halt::Stop);
        assert!(out.storage.is_empty());
    }

    #[test]
    fn transient_storage_is_separate() {
        // TSTORE(1, 5); SSTORE(1, 6); TLOAD(1) * 16 + SLOAD(1)
        let code = vec![
            0x60, 0x05, 0x60, 0x01, 0x5d, 0x60, 0x06, 0x60, 0x01, 0x55, 0x60, 0x01, 0x5c, 0x60, 0x10, 0x02,
            0x60, 0x01, 0x54, 0x01,
        ];
        let out = run_code(cat(&[&code, &RET_TOP]));
        assert_eq!(out.halt, Halt::Return(word(0x56).to_vec()));
        assert_eq!(out.storage.get(&word(1)), Some(&word(6)));
        assert_eq!(out.transient.get(&word(1)), Some(&word(5)));
        // TSTORE zero deletes
        let mut ctx = Ctx::new(vec![0x5f, 0x60, 0x01, 0x5d]);
        ctx.transient.insert(word(1), word(5));
        assert!(run(&ctx).transient.is_empty());
    }

    #[test]
    fn storage_rolled_back_on_revert_and_failure() {
        let store = vec![0x60, 0xaa, 0x60, 0x01, 0x55, 0x60, 0xbb, 0x60, 0x01, 0x5d, 0x5f, 0x60, 0x07, 0x55];
        let mut ctx = Ctx::new(vec![]);
        ctx.storage.insert(word(7), word(100));
        ctx.storage.insert(word(8), [0u8; 32]); // returned verbatim on rollback
        ctx.transient.insert(word(3), word(4));
        // REVERT with data
        ctx.code = cat(&[&store, &[0x60, 0x99, 0x5f, 0x53, 0x60, 0x01, 0x5f, 0xfd]]);
        let out = run(&ctx);
        assert_eq!(out.halt, Halt::Revert(vec![0x99]));
        assert_eq!((out.storage, out.transient), (ctx.storage.clone(), ctx.transient.clone()));
        // every failure kind
        let fails: Vec<(Vec<u8>, FailKind)> = vec![
            (vec![0xfe], FailKind::InvalidOpcode),
            (vec![0x0c], FailKind::InvalidOpcode),
            (vec![0x50, 0x50, 0x50], FailKind::StackUnderflow),
            (vec![0x5f, 0x56], FailKind::BadJump),
            (cat(&[&push(&max()), &[0x51]]), FailKind::MemoryLimit),
        ];
        for (tail, kind) in fails {
            ctx.code = cat(&[&store, &tail]);
            let out = run(&ctx);
            assert_eq!(out.halt, Halt::Failure(kind));
            assert_eq!((out.storage, out.transient), (ctx.storage.clone(), ctx.transient.clone()));
        }
        // sanity: the same prefix followed by STOP does commit
        ctx.code = cat(&[&store, &[0x00]]);
        let out = run(&ctx);
        assert_eq!(out.storage.get(&word(1)), Some(&word(0xaa)));
        assert_eq!(out.storage.get(&word(7)), None);
        assert_eq!(out.storage.get(&word(8)), None);
        assert_eq!(out.transient.get(&word(1)), Some(&word(0xbb)));
        assert_eq!(out.transient.get(&word(3)), Some(&word(4)));
    }

    // ---- halting ----

    #[test]
    fn return_and_revert_read_memory_with_expansion() {
        // RETURN(30, 4) after MSTORE(0, 0x..beef): bytes 30,31 = be ef, then 2 zero bytes; MSIZE 64
        let out = run_code(vec![0x61, 0xbe, 0xef, 0x5f, 0x52, 0x60, 0x04, 0x60, 0x1e, 0xf3]);
        assert_eq!(out.halt, Halt::Return(vec![0xbe, 0xef, 0, 0]));
        assert_eq!(out.mem_size, 64);
        let out = run_code(vec![0x60, 0x40, 0x60, 0x01, 0xfd]);
        assert_eq!(out.halt, Halt::Revert(vec![0; 64]));
        assert_eq!(out.mem_size, 96);
    }

    #[test]
    fn invalid_and_undefined_opcodes() {
        assert_eq!(run_code(vec![0xfe]).halt, Halt::Failure(FailKind::InvalidOpcode));
        let undefined: Vec<u8> = (0x0c..=0x0f)
            .chain(0x1f..=0x1f)
            .chain(0x21..=0x2f)
            .chain(0x4b..=0x4f)
            .chain(0xa5..=0xef)
            .chain(0xf6..=0xf9)
            .chain(0xfb..=0xfc)
            .collect();
        for op in undefined {
            let out = run_code(vec![0x5f, op]);
            assert_eq!(out.halt, Halt::Failure(FailKind::InvalidOpcode), "op {:#x}", op);
            assert!(out.opcodes_seen[op as usize]);
        }
    }

    #[test]
    fn defined_but_unmodelled_opcodes_are_unsupported() {
        let ops: Vec<u8> = (0x30..=0x34)
            .chain(0x3a..=0x3f)
            .chain(0x40..=0x4a)
            .chain([0x5a])
            .chain(0xa0..=0xa4)
            .chain([0xf0, 0xf1, 0xf2, 0xf4, 0xf5, 0xfa, 0xff])
            .collect();
        for op in ops {
            let out = run_code(vec![0x5b, 0x5b, op]); // empty stack: still Unsupported, not underflow
            assert_eq!(out.halt, Halt::Unsupported(op, 2), "op {:#x}", op);
        }
        // every byte value falls in exactly one class, and the supported set is what we expect
        let supported = (0..=255u8).filter(|&op| matches!(classify(op), OpClass::Supported(..))).count();
        let unsupported = (0..=255u8).filter(|&op| classify(op) == OpClass::Unsupported).count();
        assert_eq!(supported, 12 + 15 + 1 + 5 + 15 + 32 + 32 + 2);
        assert_eq!(unsupported, 5 + 6 + 11 + 1 + 5 + 7);
    }

    #[test]
    fn step_limit() {
        // infinite loop: JUMPDEST PUSH0 JUMP
        let mut ctx = Ctx::new(vec![0x5b, 0x5f, 0x56]);
        ctx.step_limit = 10;
        let out = run(&ctx);
        assert_eq!((out.halt, out.steps, out.pcs.len()), (Halt::StepLimit, 10, 10));
        assert_eq!(out.jumps.len(), 3);
        // exactly enough steps
        let mut ctx = Ctx::new(vec![0x5f, 0x5f, 0x00]);
        ctx.step_limit = 3;
        assert_eq!(run(&ctx).halt, Halt::Stop);
        ctx.step_limit = 2;
        let out = run(&ctx);
        assert_eq!((out.halt, out.steps), (Halt::StepLimit, 2));
        // implicit STOP at end of code is not a step
        let mut ctx = Ctx::new(vec![0x5f, 0x5f]);
        ctx.step_limit = 2;
        assert_eq!(run(&ctx).halt, Halt::Stop);
        ctx.step_limit = 0;
        assert_eq!(run(&ctx).halt, Halt::StepLimit);
        // StepLimit keeps the working state (it is not a rollback)
        let mut ctx = Ctx::new(vec![0x60, 0x01, 0x5f, 0x55, 0x5b, 0x60, 0x04, 0x56]);
        ctx.step_limit = 50;
        let out = run(&ctx);
        assert_eq!(out.halt, Halt::StepLimit);
        assert_eq!(out.storage.get(&word(0)), Some(&word(1)));
    }

    #[test]
    fn pcs_trace_is_capped() {
        let mut ctx = Ctx::new(vec![0x5b, 0x5f, 0x56]);
        ctx.step_limit = 150_000;
        let out = run(&ctx);
        assert_eq!(out.halt, Halt::StepLimit);
        assert_eq!(out.steps, 150_000);
        assert_eq!(out.pcs.len(), PCS_CAP);
        assert_eq!(out.jumps.len(), 50_000);
    }

    #[test]
    fn word_conversions_roundtrip() {
        assert_eq!(u256_to_word(&u(0)), [0u8; 32]);
        assert_eq!(u256_to_word(&max()), [0xffu8; 32]);
        assert_eq!(word(0x0102)[30..], [1, 2]);
        assert_eq!(word_to_u256(&u256_to_word(&min_neg())), min_neg());
    }

    /// Throughput smoke test: `cargo test --release --offline -- --ignored --nocapture throughput`.
    #[test]
    #[ignore]
    fn throughput() {
        // counter loop: PUSH3 n ; JUMPDEST ; PUSH1 1 ; SWAP1 ; SUB ; DUP1 ; PUSH1 4 ; JUMPI ; STOP
        let mut ctx = Ctx::new(vec![0x62, 0x04, 0x00, 0x00, 0x5b, 0x60, 0x01, 0x90, 0x03, 0x80, 0x60, 0x04, 0x57, 0x00]);
        ctx.step_limit = u64::MAX;
        let t = std::time::Instant::now();
        let out = run(&ctx);
        let dt = t.elapsed().as_secs_f64();
        assert_eq!(out.halt, Halt::Stop);
        println!("{} steps in {:.3}s = {:.2e} steps/s", out.steps, dt, out.steps as f64 / dt);
    }
}
