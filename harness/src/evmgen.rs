//! EVM program generators: single-instruction boundary cases, structured multi-instruction
//! programs (loops, jumps, memory, storage, transient storage, calldata/code copy, hashing),
//! byte-level mutations and arbitrary byte strings.
use crate::evm::{Asm, op};
use crate::rng::Rng;

#[derive(Clone, Debug)]
pub struct Prog {
    pub code: Vec<u8>,
    pub calldatas: Vec<Vec<u8>>,
    pub kind: &'static str,
}

/// (opcode, pops) of the pure one-result instructions
pub const PURE_OPS: &[(u8, usize)] = &[
    (op::ADD, 2), (op::MUL, 2), (op::SUB, 2), (op::DIV, 2), (op::SDIV, 2), (op::MOD, 2), (op::SMOD, 2),
    (op::ADDMOD, 3), (op::MULMOD, 3), (op::EXP, 2), (op::SIGNEXTEND, 2),
    (op::LT, 2), (op::GT, 2), (op::SLT, 2), (op::SGT, 2), (op::EQ, 2), (op::ISZERO, 1),
    (op::AND, 2), (op::OR, 2), (op::XOR, 2), (op::NOT, 1), (op::BYTE, 2), (op::SHL, 2), (op::SHR, 2), (op::SAR, 2), (op::CLZ, 1),
];

pub fn boundary_word(rng: &mut Rng) -> [u8; 32] {
    let mut w = [0u8; 32];
    let set_bit = |w: &mut [u8; 32], k: usize| w[31 - k / 8] |= 1 << (k % 8);
    match rng.weighted(&[8, 8, 6, 14, 14, 8, 8, 6, 10, 18]) {
        0 => {}
        1 => w[31] = 1,
        2 => w[31] = 2,
        3 => {
            let k = *rng.pick(&[7usize, 8, 15, 16, 31, 32, 63, 64, 127, 128, 254, 255]);
            set_bit(&mut w, k);
        }
        4 => {
            // 2^k - 1 or 2^k + 1
            let k = *rng.pick(&[7usize, 8, 15, 16, 31, 32, 63, 64, 127, 128, 255]);
            if rng.chance(1, 2) {
                for i in 0..k {
                    set_bit(&mut w, i);
                }
            } else {
                set_bit(&mut w, k);
                w[31] |= 1;
            }
        }
        5 => w = [0xff; 32],
        6 => {
            w = [0xff; 32];
            w[31] = 0xfe;
        }
        7 => {
            // most negative / -1-ish signed edge
            w[0] = 0x80;
            if rng.chance(1, 2) {
                w[31] = 1;
            }
        }
        8 => {
            // small numbers around shift / byte / signextend edges
            let v = *rng.pick(&[0u64, 1, 7, 8, 30, 31, 32, 33, 255, 256, 257, 1024]);
            w[24..].copy_from_slice(&v.to_be_bytes());
        }
        _ => {
            let b = rng.bytes(32);
            w.copy_from_slice(&b);
            if rng.chance(1, 3) {
                // sparse high part
                for x in w.iter_mut().take(16 + rng.below(16) as usize) {
                    *x = 0;
                }
            }
        }
    }
    w
}

fn push_word(a: &mut Asm, w: &[u8; 32]) {
    let nz = w.iter().position(|b| *b != 0);
    match nz {
        None => {
            a.op(op::PUSH0);
        }
        Some(i) => {
            a.push_bytes(&w[i..]);
        }
    }
}

fn ret_top(a: &mut Asm) {
    a.op(op::PUSH0).op(op::MSTORE).push(32).op(op::PUSH0).op(op::RETURN);
}

/// PUSH operands; OP; return the result word
pub fn gen_single_op(rng: &mut Rng) -> Prog {
    let (o, pops) = *rng.pick(PURE_OPS);
    let mut a = Asm::new();
    let mut operands = vec![];
    for _ in 0..pops {
        operands.push(boundary_word(rng));
    }
    // special operand shaping: shifts, BYTE, SIGNEXTEND take a small first operand
    if matches!(o, op::SHL | op::SHR | op::SAR | op::BYTE | op::SIGNEXTEND) && rng.chance(3, 4) {
        let v = *rng.pick(&[0u64, 1, 7, 8, 15, 16, 30, 31, 32, 33, 63, 64, 128, 255, 256, 257]);
        let mut w = [0u8; 32];
        w[24..].copy_from_slice(&v.to_be_bytes());
        operands[0] = w;
    }
    // operands[0] is the top of the stack: push in reverse
    for w in operands.iter().rev() {
        push_word(&mut a, w);
    }
    a.op(o);
    ret_top(&mut a);
    Prog { code: a.finish(), calldatas: vec![vec![]], kind: "single-op" }
}

/// A random structured program that keeps the stack valid most of the time.
pub fn gen_structured(rng: &mut Rng) -> Prog {
    let mut a = Asm::new();
    let mut depth: usize = 0;
    let mut labels = 0usize;
    let mut pending_labels: Vec<(String, usize)> = vec![]; // forward labels with the depth expected there
    let n = 8 + rng.below(40) as usize;
    let small = |rng: &mut Rng| {
        let m = if rng.chance(1, 6) { 2048 } else { 160 };
        rng.below(m)
    };
    for _ in 0..n {
        // place a pending forward label sometimes (only if depth matches)
        if let Some(pos) = pending_labels.iter().position(|(_, d)| *d == depth)
            && rng.chance(1, 3)
        {
            let (l, _) = pending_labels.remove(pos);
            a.label(&l);
        }
        let choice = rng.weighted(&[18, 16, 10, 10, 8, 8, 6, 6, 5, 5, 4, 4]);
        match choice {
            0 => {
                let w = boundary_word(rng);
                push_word(&mut a, &w);
                depth += 1;
            }
            1 => {
                let (o, pops) = *rng.pick(PURE_OPS);
                while depth < pops {
                    let w = boundary_word(rng);
                    push_word(&mut a, &w);
                    depth += 1;
                }
                a.op(o);
                depth = depth + 1 - pops;
            }
            2 => {
                // memory store / load at small offsets
                if depth == 0 {
                    let w = boundary_word(rng);
                    push_word(&mut a, &w);
                    depth += 1;
                }
                let off = small(rng);
                a.push(off);
                match rng.below(3) {
                    0 => {
                        a.op(op::MSTORE);
                        depth -= 1;
                    }
                    1 => {
                        a.op(op::MSTORE8);
                        depth -= 1;
                    }
                    _ => {
                        a.op(op::MLOAD);
                    }
                }
            }
            3 => {
                // storage / transient storage
                let key = rng.below(4);
                match rng.below(4) {
                    0 => {
                        if depth == 0 {
                            let w = boundary_word(rng);
                            push_word(&mut a, &w);
                            depth += 1;
                        }
                        a.push(key).op(op::SSTORE);
                        depth -= 1;
                    }
                    1 => {
                        a.push(key).op(op::SLOAD);
                        depth += 1;
                    }
                    2 => {
                        if depth == 0 {
                            let w = boundary_word(rng);
                            push_word(&mut a, &w);
                            depth += 1;
                        }
                        a.push(key).op(op::TSTORE);
                        depth -= 1;
                    }
                    _ => {
                        a.push(key).op(op::TLOAD);
                        depth += 1;
                    }
                }
            }
            4 => {
                // calldata / code / msize / pc
                match rng.below(6) {
                    0 => {
                        a.push(small(rng)).op(op::CALLDATALOAD);
                        depth += 1;
                    }
                    1 => {
                        a.op(op::CALLDATASIZE);
                        depth += 1;
                    }
                    2 => {
                        a.push(small(rng)).push(small(rng)).push(small(rng)).op(op::CALLDATACOPY);
                    }
                    3 => {
                        a.push(small(rng)).push(small(rng)).push(small(rng)).op(op::CODECOPY);
                    }
                    4 => {
                        a.op(op::CODESIZE);
                        depth += 1;
                    }
                    _ => {
                        a.op(if rng.chance(1, 2) { op::MSIZE } else { op::PC });
                        depth += 1;
                    }
                }
            }
            5 => {
                // keccak over a small region, mcopy
                if rng.chance(1, 2) {
                    a.push(small(rng)).push(small(rng)).op(op::KECCAK256);
                    depth += 1;
                } else {
                    a.push(small(rng)).push(small(rng)).push(small(rng)).op(op::MCOPY);
                }
            }
            6 => {
                // stack shuffles
                if depth == 0 {
                    continue;
                }
                match rng.below(3) {
                    0 => {
                        let k = 1 + rng.below(depth.min(16) as u64) as u8;
                        a.op(op::DUP1 + k - 1);
                        depth += 1;
                    }
                    1 => {
                        if depth >= 2 {
                            let k = 1 + rng.below((depth - 1).min(16) as u64) as u8;
                            a.op(op::SWAP1 + k - 1);
                        }
                    }
                    _ => {
                        a.op(op::POP);
                        depth -= 1;
                    }
                }
            }
            7 => {
                // forward conditional / unconditional jump to a label placed later at the same depth
                labels += 1;
                let l = format!("L{labels}");
                if rng.chance(2, 3) {
                    // JUMPI on a computed / constant condition
                    let w = boundary_word(rng);
                    push_word(&mut a, &w);
                    a.push_label(&l).op(op::JUMPI);
                } else {
                    a.push_label(&l).op(op::JUMP);
                    // dead code until the label
                    a.op(op::INVALID);
                }
                pending_labels.push((l, depth));
            }
            8 => {
                // bounded loop: counter on the stack
                labels += 1;
                let l = format!("loop{labels}");
                let iters = 1 + rng.below(12);
                a.push(iters);
                a.label(&l);
                // body: something cheap that keeps the depth
                match rng.below(3) {
                    0 => {
                        a.op(op::DUP1).push(small(rng)).op(op::MSTORE);
                    }
                    1 => {
                        a.op(op::DUP1).push(rng.below(3)).op(op::SSTORE);
                    }
                    _ => {
                        a.op(op::DUP1).op(op::DUP1).op(op::MUL).op(op::POP);
                    }
                }
                a.push(1).op(op::SWAP1).op(op::SUB).op(op::DUP1).push_label(&l).op(op::JUMPI).op(op::POP);
            }
            9 => {
                // huge offsets: must be rejected (32-bit limit), or zero-size accesses: must be fine
                let mut w = [0u8; 32];
                w[27 - rng.below(20) as usize] = 1 + rng.below(255) as u8; // >= 2^32
                if rng.chance(1, 2) {
                    push_word(&mut a, &w);
                    a.op(op::MLOAD);
                    depth += 1;
                } else {
                    // zero-length copy at a huge offset is legal
                    a.op(op::PUSH0);
                    push_word(&mut a, &w);
                    push_word(&mut a, &w);
                    a.op(op::CALLDATACOPY);
                }
            }
            10 => {
                // deep stack towards the 1024 limit
                let k = rng.below(40);
                for _ in 0..k {
                    a.op(op::PC);
                }
                depth += k as usize;
            }
            _ => {
                // early halt
                match rng.below(4) {
                    0 => {
                        a.op(op::STOP);
                    }
                    1 => {
                        a.push(small(rng)).push(small(rng)).op(op::REVERT);
                    }
                    2 => {
                        a.push(small(rng)).push(small(rng)).op(op::RETURN);
                    }
                    _ => {
                        a.op(op::INVALID);
                    }
                }
            }
        }
    }
    // place the remaining labels, then end
    for (l, _) in pending_labels {
        a.label(&l);
    }
    match rng.below(5) {
        0 => {}
        1 => {
            a.op(op::STOP);
        }
        2 => {
            a.push(rng.below(128)).push(rng.below(64)).op(op::REVERT);
        }
        _ => {
            if depth > 0 && rng.chance(1, 2) {
                ret_top(&mut a);
            } else {
                a.push(rng.below(160)).push(rng.below(64)).op(op::RETURN);
            }
        }
    }
    let cd = |rng: &mut Rng| -> Vec<u8> {
        let n = *rng.pick(&[0usize, 1, 4, 31, 32, 33, 64, 100]);
        rng.bytes(n)
    };
    Prog { code: a.finish(), calldatas: vec![cd(rng), cd(rng)], kind: "structured" }
}

/// byte-level mutation of a valid program
pub fn mutate(rng: &mut Rng, p: &Prog) -> Prog {
    let mut code = p.code.clone();
    if code.is_empty() {
        code.push(0);
    }
    for _ in 0..1 + rng.below(4) {
        let i = rng.below(code.len() as u64) as usize;
        match rng.below(5) {
            0 => code[i] = rng.next() as u8,
            1 => code[i] ^= 1 << rng.below(8),
            2 => {
                code.remove(i);
                if code.is_empty() {
                    code.push(op::STOP);
                }
            }
            3 => code.insert(i, rng.next() as u8),
            _ => code.truncate(i.max(1)),
        }
    }
    Prog { code, calldatas: p.calldatas.clone(), kind: "mutated" }
}

/// stack-edge programs: push towards 1023/1024/1025 items then apply an instruction of some arity
pub fn gen_stack_edge(rng: &mut Rng) -> Prog {
    let mut a = Asm::new();
    let target = *rng.pick(&[1021u64, 1022, 1023, 1024, 1025]);
    // loop pushing PC until `target` items (counter kept on top)
    // simple and exact: emit a loop that pushes two items per iteration is awkward; emit straight-line code
    for _ in 0..target {
        a.op(op::PC);
    }
    let o = match rng.below(8) {
        0 => op::PC,
        1 => op::DUP1 + rng.below(16) as u8,
        2 => op::PUSH0,
        3 => op::ADD,
        4 => op::SWAP1 + rng.below(16) as u8,
        5 => op::MSIZE,
        // every other instruction that pushes without popping (environment reads)
        _ => *rng.pick(&[0x30u8, 0x32, 0x33, 0x34, 0x36, 0x38, 0x3a, 0x3d, 0x41, 0x42, 0x43, 0x44, 0x45, 0x46, 0x47, 0x48, 0x4a, 0x58, 0x59, 0x5a, 0x5f, 0x60]),
    };
    a.op(o);
    if o == 0x60 {
        a.op(0x01);
    }
    a.op(op::STOP);
    Prog { code: a.finish(), calldatas: vec![vec![]], kind: "stack-edge" }
}

pub fn random_bytes(rng: &mut Rng) -> Prog {
    let n = match rng.weighted(&[40, 40, 20]) {
        0 => 1 + rng.below(16) as usize,
        1 => 16 + rng.below(100) as usize,
        _ => 100 + rng.below(600) as usize,
    };
    let mut code = rng.bytes(n);
    // bias towards defined opcodes a little
    for b in code.iter_mut() {
        if rng.chance(1, 3) {
            *b = *rng.pick(&[0x00, 0x01, 0x50, 0x51, 0x52, 0x54, 0x55, 0x56, 0x57, 0x5b, 0x5f, 0x60, 0x61, 0x7f, 0x80, 0x90, 0xf3, 0xfd, 0x35, 0x36, 0x37, 0x39, 0x20, 0x5e, 0x5c, 0x5d]);
        }
    }
    let n = rng.below(80) as usize;
    let cd = rng.bytes(n);
    Prog { code, calldatas: vec![cd], kind: "random-bytes" }
}


/// data-moving and addressing instructions over boundary operands: offsets and sizes taken from the
/// boundary set (2^32, 2^64, 2^128 + 1, 2^255, 2^256 - 1 ...), with non-empty calldata and a
/// recognisable memory image, returning the first 128 bytes of memory
pub fn gen_mem_edge(rng: &mut Rng) -> Prog {
    let mut a = Asm::new();
    // recognisable memory: mem[0..64] = two non-zero words
    let mut w1 = [0xa5u8; 32];
    w1[0] = 0x11;
    let mut w2 = [0x5au8; 32];
    w2[31] = 0x22;
    push_word(&mut a, &w1);
    a.op(op::PUSH0).op(op::MSTORE);
    push_word(&mut a, &w2);
    a.push(32).op(op::MSTORE);
    let small = |rng: &mut Rng| -> [u8; 32] {
        let mut w = [0u8; 32];
        let v = *rng.pick(&[0u64, 1, 2, 31, 32, 33, 40, 63, 64, 65, 96, 100]);
        w[24..].copy_from_slice(&v.to_be_bytes());
        w
    };
    let edge = |rng: &mut Rng| -> [u8; 32] { if rng.chance(2, 3) { boundary_word(rng) } else { small(rng) } };
    let mut observe_top = false;
    match rng.below(12) {
        0 => {
            let (d, s, n) = (small(rng), edge(rng), small(rng));
            push_word(&mut a, &n);
            push_word(&mut a, &s);
            push_word(&mut a, &d);
            a.op(op::CALLDATACOPY);
        }
        1 => {
            let (d, s, n) = (small(rng), edge(rng), small(rng));
            push_word(&mut a, &n);
            push_word(&mut a, &s);
            push_word(&mut a, &d);
            a.op(op::CODECOPY);
        }
        2 => {
            let (d, s, n) = (edge(rng), edge(rng), if rng.chance(1, 2) { small(rng) } else { edge(rng) });
            push_word(&mut a, &n);
            push_word(&mut a, &s);
            push_word(&mut a, &d);
            a.op(op::MCOPY);
        }
        3 => {
            push_word(&mut a, &edge(rng));
            a.op(op::CALLDATALOAD);
            observe_top = true;
        }
        4 => {
            push_word(&mut a, &edge(rng));
            a.op(op::MLOAD);
            observe_top = true;
        }
        5 => {
            push_word(&mut a, &boundary_word(rng));
            push_word(&mut a, &edge(rng));
            a.op(if rng.chance(1, 2) { op::MSTORE } else { op::MSTORE8 });
        }
        6 => {
            let n = if rng.chance(1, 2) { [0u8; 32] } else { small(rng) };
            push_word(&mut a, &n);
            push_word(&mut a, &edge(rng));
            a.op(op::KECCAK256);
            observe_top = true;
        }
        7 => {
            // RETURN / REVERT with edge offset and zero or small size
            let n = if rng.chance(1, 2) { [0u8; 32] } else { small(rng) };
            push_word(&mut a, &n);
            push_word(&mut a, &edge(rng));
            a.op(if rng.chance(1, 2) { op::RETURN } else { op::REVERT });
        }
        8 => {
            // copy with edge size but zero... sizes beyond u32 must fail, zero size with huge offsets succeed
            let n = if rng.chance(1, 2) { [0u8; 32] } else { edge(rng) };
            push_word(&mut a, &n);
            push_word(&mut a, &edge(rng));
            push_word(&mut a, &edge(rng));
            a.op(*rng.pick(&[op::CALLDATACOPY, op::CODECOPY, op::MCOPY]));
        }
        9 => {
            push_word(&mut a, &edge(rng));
            a.op(op::JUMP);
        }
        10 => {
            // storage / transient storage with boundary keys and values
            let (k, v) = (boundary_word(rng), boundary_word(rng));
            let t = rng.chance(1, 2);
            push_word(&mut a, &v);
            push_word(&mut a, &k);
            a.op(if t { op::TSTORE } else { op::SSTORE });
            push_word(&mut a, &k);
            a.op(if t { op::TLOAD } else { op::SLOAD });
            observe_top = true;
        }
        _ => {
            push_word(&mut a, &edge(rng));
            push_word(&mut a, &edge(rng));
            a.op(op::JUMPI);
        }
    }
    if observe_top {
        a.push(64).op(op::MSTORE);
    }
    a.op(op::MSIZE).push(96).op(op::MSTORE);
    a.push(128).op(op::PUSH0).op(op::RETURN);
    let n = 33 + rng.below(70) as usize;
    let mut cd = rng.bytes(n);
    for b in cd.iter_mut() {
        if *b == 0 {
            *b = 0x77;
        }
    }
    Prog { code: a.finish(), calldatas: vec![cd], kind: "mem-edge" }
}
