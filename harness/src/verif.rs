//! Verified-registry / DataCap snapshots and helpers (C09, C10).
use crate::mvm::{Inv, Mvm};
use crate::world::*;
use fil_actor_datacap::State as DataCapState;
use fil_actor_verifreg::{
    Allocation, AllocationRequest, AllocationRequests, Claim, ClaimExtensionRequest, DataCap,
    Method as VerifregMethod, State as VerifregState,
};
use fil_actors_runtime::{
    DATACAP_TOKEN_ACTOR_ADDR, DEFAULT_HAMT_CONFIG, Map2, VERIFIED_REGISTRY_ACTOR_ADDR,
    parse_uint_key,
};
use frc46_token::token::types::{BurnParams, TransferFromParams, TransferParams};
use fvm_ipld_encoding::RawBytes;
use fvm_shared::ActorID;
use fvm_shared::address::Address;
use fvm_shared::bigint::Zero;
use fvm_shared::econ::TokenAmount;
use std::collections::BTreeMap;

pub const VR: Address = VERIFIED_REGISTRY_ACTOR_ADDR;
pub const DC: Address = DATACAP_TOKEN_ACTOR_ADDR;

#[derive(Clone, Debug, Default)]
pub struct VrSnap {
    pub verifiers: BTreeMap<Address, DataCap>,
    pub allocs: BTreeMap<u64, Allocation>,
    pub claims: BTreeMap<u64, Claim>,
    pub next_id: u64,
    pub supply: TokenAmount,
    pub balances: BTreeMap<ActorID, TokenAmount>,
}

pub fn snap_vr(v: &Mvm) -> VrSnap {
    let st: VerifregState = state(v, &VR).unwrap();
    let bs = v.store.as_ref();
    let mut s = VrSnap { next_id: st.next_allocation_id, ..Default::default() };
    let vm = fil_actor_verifreg::state::DataCapMap::load(bs, &st.verifiers, fil_actor_verifreg::state::DATACAP_MAP_CONFIG, "verifiers").unwrap();
    vm.for_each(|a, c| {
        s.verifiers.insert(a, c.0.clone());
        Ok(())
    })
    .unwrap();
    let mut allocs = st.load_allocs(bs).unwrap();
    let mut clients = vec![];
    allocs
        .for_each(|k, _| {
            clients.push(parse_uint_key(k).unwrap());
            Ok(())
        })
        .unwrap();
    for c in clients {
        allocs
            .for_each_in(c, |k, a| {
                s.allocs.insert(parse_uint_key(k).unwrap(), a.clone());
                Ok(())
            })
            .unwrap();
    }
    let mut claims = st.load_claims(bs).unwrap();
    let mut provs = vec![];
    claims
        .for_each(|k, _| {
            provs.push(parse_uint_key(k).unwrap());
            Ok(())
        })
        .unwrap();
    for p in provs {
        claims
            .for_each_in(p, |k, c| {
                s.claims.insert(parse_uint_key(k).unwrap(), c.clone());
                Ok(())
            })
            .unwrap();
    }
    let ds: DataCapState = state(v, &DC).unwrap();
    s.supply = ds.token.supply.clone();
    let bm = ds.token.get_balance_map(bs).unwrap();
    bm.for_each(|k, amt| {
        s.balances.insert(parse_uint_key(k).unwrap(), amt.clone());
        Ok(())
    })
    .unwrap();
    s
}

impl VrSnap {
    pub fn bal(&self, id: ActorID) -> TokenAmount {
        self.balances.get(&id).cloned().unwrap_or_default()
    }
}

pub fn whole(n: u64) -> TokenAmount {
    TokenAmount::from_whole(n as i64)
}

/// client -> datacap.Transfer(to verifreg, amount, operator_data = requests)
pub fn transfer_to_registry(v: &Mvm, client: &Address, amount: &TokenAmount, allocations: Vec<AllocationRequest>, extensions: Vec<ClaimExtensionRequest>) -> (vm_api::MessageResult, Option<Inv>) {
    let payload = AllocationRequests { allocations, extensions };
    let p = TransferParams { to: VR, amount: amount.clone(), operator_data: RawBytes::serialize(&payload).unwrap() };
    call(v, client, &DC, &TokenAmount::zero(), fil_actor_datacap::Method::TransferExported as u64, Some(&p))
}

pub fn transfer_from_to_registry(v: &Mvm, operator: &Address, client: &Address, amount: &TokenAmount, allocations: Vec<AllocationRequest>) -> (vm_api::MessageResult, Option<Inv>) {
    let payload = AllocationRequests { allocations, extensions: vec![] };
    let p = TransferFromParams { from: *client, to: VR, amount: amount.clone(), operator_data: RawBytes::serialize(&payload).unwrap() };
    call(v, operator, &DC, &TokenAmount::zero(), fil_actor_datacap::Method::TransferFromExported as u64, Some(&p))
}

pub fn burn_datacap(v: &Mvm, holder: &Address, amount: &TokenAmount) -> (vm_api::MessageResult, Option<Inv>) {
    call(v, holder, &DC, &TokenAmount::zero(), fil_actor_datacap::Method::BurnExported as u64, Some(&BurnParams { amount: amount.clone() }))
}

/// root multisig (threshold 1) executes a verifreg method
pub fn via_root<T: serde::Serialize>(v: &Mvm, method: VerifregMethod, params: &T) -> (vm_api::MessageResult, Option<Inv>, bool) {
    let p = fil_actor_multisig::ProposeParams { to: VR, value: TokenAmount::zero(), method: method as u64, params: RawBytes::serialize(params).unwrap() };
    let (r, inv) = call(v, &ROOT_SIGNER, &ROOT_MSIG, &TokenAmount::zero(), fil_actor_multisig::Method::Propose as u64, Some(&p));
    let inner_ok = ret::<fil_actor_multisig::ProposeReturn>(&r).is_some_and(|pr| pr.applied && pr.code.is_success());
    (r, inv, inner_ok)
}

/// minted / burnt amounts in the effective part of a trace (calls into the datacap actor)
pub fn mint_burn_in(inv: &Inv) -> (TokenAmount, TokenAmount) {
    let (mut minted, mut burnt) = (TokenAmount::zero(), TokenAmount::zero());
    for i in inv.effective() {
        if i.to != DC {
            continue;
        }
        let m = i.method;
        if m == fil_actor_datacap::Method::MintExported as u64 {
            if let Some(p) = i.params.as_ref().and_then(|p| p.deserialize::<fil_actor_datacap::MintParams>().ok()) {
                minted += p.amount;
            }
        } else if m == fil_actor_datacap::Method::DestroyExported as u64 {
            if let Some(p) = i.params.as_ref().and_then(|p| p.deserialize::<fil_actor_datacap::DestroyParams>().ok()) {
                burnt += p.amount;
            }
        } else if m == fil_actor_datacap::Method::BurnExported as u64 {
            if let Some(p) = i.params.as_ref().and_then(|p| p.deserialize::<BurnParams>().ok()) {
                burnt += p.amount;
            }
        } else if m == fil_actor_datacap::Method::BurnFromExported as u64
            && let Some(p) = i.params.as_ref().and_then(|p| p.deserialize::<frc46_token::token::types::BurnFromParams>().ok())
        {
            burnt += p.amount;
        }
    }
    (minted, burnt)
}
