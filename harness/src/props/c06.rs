//! C06 — market escrow: locked funds equal outstanding deal obligations; withdrawals.
//! (The generated market history and its three oracle sets are shared with C07 and C08; each check
//! reports only the violations of its own property.)
use crate::framework::*;
use crate::market::*;
use crate::rng::Rng;
use crate::world::*;
use fil_actor_market::{AddBalanceParams, DealProposal, Method as MarketMethod, SectorDeals, WithdrawBalanceParams};
use fil_actor_miner::SectorChanges;
use fil_actors_runtime::runtime::Policy;
use fvm_shared::address::Address;
use fvm_shared::bigint::Zero;
use fvm_shared::clock::ChainEpoch;
use fvm_shared::deal::DealID;
use fvm_shared::econ::TokenAmount;
use fvm_shared::sector::SectorNumber;
use std::collections::BTreeMap;
use std::time::Duration;
use vm_api::VM;

pub const MIN_DUR: ChainEpoch = 180 * DAY;

/// One generated market history. `focus` = "C06" | "C07" | "C08": which property's violations count.
pub fn history(index: u64, mut rng: Rng, tier: Tier, focus: &str) -> Outcome {
    let mut o = Outcome::default();
    let w = market_world(50_000 + index, 3 + rng.below(2) as usize, 2);
    let v = &w.v;
    let policy = Policy::default();
    v.set_epoch(1 + rng.range(0, 100));
    let mut reg = Registry::default();
    let mut ctr: u64 = rng.below(100);
    let mut sector_ctr: SectorNumber = 1;
    let mut ext: BTreeMap<Address, TokenAmount> = BTreeMap::new();
    let long = rng.chance(1, tier.pick(6, 3)); // some histories run to the end of the deals
    let nops = tier.pick(70, 110);
    let mut activations_ok = 0u64;
    let mut published_ok = 0u64;
    // initial funding
    for c in w.clients.iter().chain(w.providers.iter().map(|p| &p.miner)) {
        if rng.chance(4, 5) {
            let amt = fil(5 + rng.range(0, 40)) + atto(rng.below(1_000_000));
            let (r, _) = call(v, &w.strangers[0], &MKT, &amt, MarketMethod::AddBalance as u64, Some(&AddBalanceParams { provider_or_client: *c }));
            assert!(r.code.is_success());
        }
    }
    let mut prev = snap(v);
    check_ledger(&prev, &mut o, "initial");
    let total0 = v.total_balance();

    for step in 0..nops {
        let epoch = v.epoch();
        ext.clear();
        let mut terminated: BTreeMap<(u64, SectorNumber), ChainEpoch> = BTreeMap::new();
        let live: Vec<DealID> = prev.deals.keys().cloned().collect();
        let kind = rng.weighted(&[8, 10, 22, 16, 12, 8, if long { 22 } else { 14 }, 6]);
        let desc: String;
        match kind {
            0 => {
                // deposit by anyone for any party
                let party = if rng.chance(2, 3) { *rng.pick(&w.clients) } else { rng.pick(&w.providers).miner };
                let amt = match rng.weighted(&[80, 10, 10]) {
                    0 => fil(rng.range(1, 20)) + atto(rng.below(1000)),
                    1 => TokenAmount::zero(),
                    _ => atto(1 + rng.below(50)),
                };
                let from = *rng.pick(&w.strangers);
                let (r, _) = call(v, &from, &MKT, &amt, MarketMethod::AddBalance as u64, Some(&AddBalanceParams { provider_or_client: party }));
                if r.code.is_success() {
                    *ext.entry(party).or_default() += &amt;
                }
                desc = format!("AddBalance {amt} for {party} -> {}", r.code);
            }
            1 => {
                // withdrawal: any amount, any caller
                let (party, callers): (Address, Vec<Address>) = if rng.chance(1, 2) {
                    let c = *rng.pick(&w.clients);
                    (c, vec![c, c, c, w.strangers[0], w.clients[0]])
                } else {
                    let p = rng.pick(&w.providers);
                    (p.miner, vec![p.owner, p.worker, p.owner, w.strangers[0], w.clients[0], p.miner])
                };
                let caller = *rng.pick(&callers);
                let avail = prev.esc(&party) - prev.lck(&party);
                let amt = match rng.weighted(&[30, 25, 20, 15, 10]) {
                    0 => avail.clone(),
                    1 => &avail + atto(1 + rng.below(1_000_000)),
                    2 => atto(rng.below(avail.atto().to_string().parse::<u128>().unwrap_or(0).min(u64::MAX as u128 / 2) as u64 + 1)),
                    3 => prev.esc(&party),
                    _ => TokenAmount::from_atto(-1),
                };
                let (r, inv) = call(v, &caller, &MKT, &TokenAmount::zero(), MarketMethod::WithdrawBalance as u64, Some(&WithdrawBalanceParams { provider_or_client: party, amount: amt.clone() }));
                let after = snap(v);
                check_withdraw(&w, &prev, &caller, &party, &amt, &r, inv.as_ref(), &after, &mut o, step);
                if r.code.is_success() {
                    let wr: fil_actor_market::WithdrawBalanceReturn = ret(&r).unwrap();
                    *ext.entry(party).or_default() -= wr.amount_withdrawn;
                }
                desc = format!("Withdraw {amt} from {party} by {caller} -> {}", r.code);
            }
            2 => {
                // publish a batch
                let pi = rng.below(w.providers.len() as u64) as usize;
                let prov = &w.providers[pi];
                let caller = match rng.weighted(&[85, 5, 10]) {
                    0 => prov.worker,
                    1 => prov.owner,
                    _ => *rng.pick(&w.strangers),
                };
                let n = 1 + rng.below(4) as usize;
                let mut batch = vec![];
                let mut notes = vec![];
                for _ in 0..n {
                    ctr += 1;
                    let client = *rng.pick(&w.clients);
                    let start = epoch + match rng.weighted(&[70, 15, 10, 5]) {
                        0 => rng.range(200, 3 * DAY),
                        1 => rng.range(0, 3),
                        2 => rng.range(3 * DAY, 20 * DAY),
                        _ => -rng.range(1, 5),
                    };
                    let dur = match rng.weighted(&[80, 10, 10]) {
                        0 => MIN_DUR + rng.range(0, 5),
                        1 => MIN_DUR + rng.range(0, 100 * DAY),
                        _ => MIN_DUR - rng.range(1, 10),
                    };
                    let mut p = make_proposal(ctr, client, prov.miner, start, dur, 11 + rng.below(10) as u32, &format!("d{ctr}"));
                    let mut signer = client;
                    match rng.weighted(&[70, 6, 6, 6, 6, 6]) {
                        0 => {}
                        1 => {
                            // exact duplicate of an earlier proposal (pending or not)
                            if let Some(k) = reg.deals.values().nth(rng.below(reg.deals.len().max(1) as u64) as usize) {
                                p = k.proposal.clone();
                                signer = p.client;
                                notes.push("dup-earlier");
                            }
                        }
                        2 => {
                            // duplicate within this batch
                            if let Some(b) = batch.last() {
                                let b: &fil_actor_market::ClientDealProposal = b;
                                p = b.proposal.clone();
                                signer = p.client;
                                notes.push("dup-in-batch");
                            }
                        }
                        3 => {
                            signer = *rng.pick(&w.strangers);
                            notes.push("bad-signer");
                        }
                        4 => {
                            p.provider = w.providers[(pi + 1) % w.providers.len()].miner;
                            notes.push("foreign-provider");
                        }
                        _ => {
                            // unfunded: price so high that escrow cannot cover it
                            p.storage_price_per_epoch = fil(1);
                            notes.push("unfunded");
                        }
                    }
                    batch.push(signed(&w.keys, &p, &signer));
                }
                let submitted: Vec<(DealProposal, bool)> = batch
                    .iter()
                    .map(|b| {
                        let key = w.keys.get(&b.proposal.client).cloned().unwrap_or(b.proposal.client);
                        let good = b.client_signature.bytes == sign(&key, fil_actors_runtime::cbor::serialize(&b.proposal, "p").unwrap().bytes());
                        (b.proposal.clone(), good)
                    })
                    .collect();
                let (r, _inv, pr) = publish(v, &caller, batch);
                desc = format!("Publish {n} deals provider={} caller={caller} notes={:?} -> {} ids={:?}", prov.miner, notes, r.code, pr.as_ref().map(|p| p.ids.clone()));
                if let Some(pr) = pr {
                    published_ok += 1;
                    let valid: Vec<u64> = pr.valid_deals.iter().collect();
                    if valid.len() != pr.ids.len() {
                        o.violate("publish_return", "C08/ids_ne_valid_bits", format!("step {step}: {} ids for {} valid bits", pr.ids.len(), valid.len()));
                    }
                    // escrow available to each party before the batch
                    let mut need: BTreeMap<Address, TokenAmount> = BTreeMap::new();
                    let controlling = caller == prov.worker || caller == prov.owner;
                    if !controlling {
                        o.violate("publish_caller", "C08/published_by_non_controller", format!("step {step}: publish by {caller} for miner {} succeeded", prov.miner));
                    }
                    for (vi, id) in valid.iter().zip(pr.ids.iter()) {
                        let (p, sig_ok) = &submitted[*vi as usize];
                        o.count("deals_accepted");
                        if let Some(m) = reg.max_id
                            && *id <= m
                        {
                            o.violate("ids_increasing", "C08/deal_id_not_increasing", format!("step {step}: new deal id {id} after {m}"));
                        }
                        if reg.deals.contains_key(id) {
                            o.violate("ids_increasing", "C08/deal_id_reused", format!("step {step}: deal id {id} reused"));
                        }
                        reg.max_id = Some(reg.max_id.map_or(*id, |m| m.max(*id)));
                        let cid = proposal_cid(v, p);
                        if !sig_ok {
                            o.violate("accept_conditions", "C08/accepted_unauthenticated", format!("step {step}: deal {id} accepted with a signature not made by its client {}", p.client));
                        }
                        if p.provider != prov.miner {
                            o.violate("accept_conditions", "C08/accepted_foreign_provider", format!("step {step}: deal {id} names provider {} but was published through {}", p.provider, prov.miner));
                        }
                        if p.start_epoch < epoch {
                            o.violate("accept_conditions", "C08/accepted_after_start", format!("step {step}: deal {id} with start {} accepted at epoch {epoch}", p.start_epoch));
                        }
                        if let Some(old) = reg.pending.get(&cid) {
                            let alive = reg.deals.get(old).is_some_and(|k| k.gone_at.is_none());
                            if alive {
                                o.violate("pending_unique", "C08/pending_unique/republish-while-alive",
                                    format!("step {step}: proposal {cid} accepted again as deal {id} while deal {old} from the same signed proposal is still outstanding (published at {}, start {})",
                                        reg.deals[old].published_at, p.start_epoch));
                            }
                        }
                        let cneed = need.entry(p.client).or_default();
                        *cneed += &p.client_collateral + &p.storage_price_per_epoch * (p.end_epoch - p.start_epoch);
                        if &(prev.esc(&p.client) - prev.lck(&p.client)) < cneed {
                            o.violate("accept_conditions", "C08/accepted_unfunded_client", format!("step {step}: deal {id}: client {} has {} unlocked but the batch needs {}", p.client, prev.esc(&p.client) - prev.lck(&p.client), cneed));
                        }
                        let pneed = need.entry(p.provider).or_default();
                        *pneed += &p.provider_collateral;
                        if &(prev.esc(&p.provider) - prev.lck(&p.provider)) < pneed {
                            o.violate("accept_conditions", "C08/accepted_unfunded_provider", format!("step {step}: deal {id}: provider {} has {} unlocked but the batch needs {}", p.provider, prev.esc(&p.provider) - prev.lck(&p.provider), pneed));
                        }
                        reg.pending.insert(cid, *id);
                        reg.deals.insert(*id, KDeal { proposal: p.clone(), cid, published_at: epoch, activated: None, activation_reports: 0, gone_at: None, terminated_at: None, paid: TokenAmount::zero() });
                    }
                }
            }
            3 | 4 => {
                // activation attempt through BatchActivateDeals (3) or SectorContentChanged (4)
                if live.is_empty() {
                    continue;
                }
                let from = if rng.chance(9, 10) { rng.pick(&w.providers).miner } else { *rng.pick(&w.clients) };
                let nsec = 1 + rng.below(2) as usize;
                let mut req: Vec<(SectorNumber, ChainEpoch, Vec<DealID>)> = vec![];
                for _ in 0..nsec {
                    let nd = 1 + rng.below(3) as usize;
                    let mut ids: Vec<DealID> = (0..nd).map(|_| if rng.chance(9, 10) { *rng.pick(&live) } else { rng.below(reg.max_id.unwrap_or(0) + 3) }).collect();
                    if rng.chance(1, 8) && !ids.is_empty() {
                        let d = ids[0];
                        ids.push(d); // repeated id (possibly non-adjacent)
                    }
                    let max_end = ids.iter().filter_map(|i| prev.deals.get(i)).map(|d| d.0.end_epoch).max().unwrap_or(epoch + MIN_DUR);
                    let expiry = if rng.chance(85, 100) { max_end + rng.range(0, 10 * DAY) } else { max_end - rng.range(1, 100) };
                    // re-use an existing sector number sometimes
                    let sn = if rng.chance(1, 6) && sector_ctr > 1 { rng.below(sector_ctr) } else { sector_ctr += 1; sector_ctr };
                    req.push((sn, expiry, ids));
                }
                let mut reported: Vec<(DealID, SectorNumber, ChainEpoch)> = vec![];
                let code;
                if kind == 3 {
                    let sectors: Vec<SectorDeals> = req.iter().map(|(sn, ex, ids)| SectorDeals { sector_number: *sn, sector_type: seal_proof(), sector_expiry: *ex, deal_ids: ids.clone() }).collect();
                    let (r, _, br) = batch_activate(v, &from, sectors);
                    code = r.code;
                    if let Some(br) = br {
                        let mut ai = 0;
                        for (si, (sn, ex, ids)) in req.iter().enumerate() {
                            let ok = !br.activation_results.fail_codes.iter().any(|f| f.idx as usize == si);
                            if ok {
                                let act = &br.activations[ai];
                                ai += 1;
                                if act.activated.len() != ids.len() {
                                    o.violate("activation_return", "C08/activated_count_mismatch", format!("step {step}: sector {sn}: {} deals requested, {} reported", ids.len(), act.activated.len()));
                                }
                                for id in ids {
                                    reported.push((*id, *sn, *ex));
                                }
                            }
                        }
                    }
                } else {
                    let sectors: Vec<SectorChanges> = req
                        .iter()
                        .map(|(sn, ex, ids)| SectorChanges {
                            sector: *sn,
                            minimum_commitment_epoch: *ex,
                            added: ids.iter().map(|id| match prev.deals.get(id) {
                                Some((p, _)) => piece_change_for(p, *id),
                                None => fil_actor_miner::PieceChange { data: fil_actors_runtime::test_utils::make_piece_cid(b"x"), size: fvm_shared::piece::PaddedPieceSize(2048), payload: deal_id_payload(*id) },
                            }).collect(),
                        })
                        .collect();
                    let (r, _, cr) = content_changed(v, &from, sectors);
                    code = r.code;
                    if let Some(cr) = cr {
                        for ((sn, ex, ids), sr) in req.iter().zip(cr.sectors.iter()) {
                            for (id, pr) in ids.iter().zip(sr.added.iter()) {
                                if pr.accepted {
                                    reported.push((*id, *sn, *ex));
                                }
                            }
                        }
                    }
                }
                desc = format!("{} from {from} {:?} -> {code} activated={:?}", if kind == 3 { "BatchActivate" } else { "SectorContentChanged" }, req, reported.iter().map(|r| r.0).collect::<Vec<_>>());
                for (id, sn, ex) in reported {
                    o.count("activations_reported");
                    activations_ok += 1;
                    match reg.deals.get_mut(&id) {
                        None => o.violate("activation", "C08/activated_unknown_deal", format!("step {step}: unknown deal {id} reported activated")),
                        Some(k) => {
                            k.activation_reports += 1;
                            if k.activation_reports > 1 {
                                o.violate("activation_once", "C08/activated_twice", format!("step {step}: deal {id} reported activated {} times (sector {sn})", k.activation_reports));
                            }
                            if k.gone_at.is_some() {
                                o.violate("activation", "C08/activated_after_removal", format!("step {step}: deal {id} activated after it left the market"));
                            }
                            if k.proposal.provider != from {
                                o.violate("activation_by_provider", "C08/activated_by_other_provider", format!("step {step}: deal {id} of provider {} activated by {from}", k.proposal.provider));
                            }
                            if epoch > k.proposal.start_epoch {
                                o.violate("activation_timely", "C08/activated_after_start", format!("step {step}: deal {id} (start {}) activated at {epoch}", k.proposal.start_epoch));
                            }
                            if ex < k.proposal.end_epoch {
                                o.violate("activation_sector_outlives", "C08/activated_in_short_sector", format!("step {step}: deal {id} (end {}) activated in a sector expiring at {ex}", k.proposal.end_epoch));
                            }
                            k.activated = Some((epoch, sn));
                        }
                    }
                }
            }
            5 => {
                // settle some deals, by anyone
                if live.is_empty() {
                    continue;
                }
                let caller = match rng.below(3) {
                    0 => *rng.pick(&w.clients),
                    1 => rng.pick(&w.providers).worker,
                    _ => *rng.pick(&w.strangers),
                };
                let ids: Vec<DealID> = rng.subset(&live, 1, 2);
                let (r, _, sr) = settle(v, &caller, &ids);
                if let Some(sr) = &sr {
                    o.add("settlements_seen", sr.settlements.len() as u64);
                    // a deal settled at or after its end leaves the market in that very call (collateral
                    // released, proposal and state removed), whatever its price
                    let st_after: fil_actor_market::State = state(v, &MKT).unwrap();
                    let proposals = fil_actor_market::DealArray::load(&st_after.proposals, v.store.as_ref()).unwrap();
                    let ok_ids: Vec<u64> = sr.results.successes(&ids.iter().map(|x| *x as u64).collect::<Vec<_>>()).into_iter().cloned().collect();
                    for id in &ok_ids {
                        if let Some(k) = reg.deals.get(id)
                            && k.activated.is_some()
                            && k.terminated_at.is_none()
                            && epoch >= k.proposal.end_epoch
                        {
                            o.count("settlements_at_or_after_end_checked");
                            if proposals.get(*id).unwrap().is_some() {
                                o.violate("completion", "C07/settled_after_end_but_not_completed", format!("step {step}: deal {id} (price {}, end {}) was settled successfully at epoch {epoch} but is still in the market: its collateral stays locked", k.proposal.storage_price_per_epoch, k.proposal.end_epoch));
                            }
                        }
                    }
                }
                desc = format!("Settle {:?} by {caller} -> {}", ids, r.code);
            }
            6 => {
                // advance time
                let starts: Vec<ChainEpoch> = prev.deals.values().flat_map(|d| [d.0.start_epoch, d.0.end_epoch]).filter(|e| *e >= epoch).collect();
                let to = match (rng.weighted(&[35, 35, 15, if long { 40 } else { 5 }]), starts.is_empty()) {
                    (0, _) | (1, true) => epoch + rng.range(1, 600),
                    (1, false) => (*rng.pick(&starts) + rng.range(-2, 2)).max(epoch + 1),
                    (2, _) => epoch + rng.range(DAY, 31 * DAY),
                    _ => epoch + rng.range(30 * DAY, 200 * DAY),
                };
                let dense = to - epoch < 50 && rng.chance(1, 2);
                let mut ticks = 0u64;
                let mut before_tick = prev.clone();
                let mut tick_fail: Option<String> = None;
                advance(v, to, dense, &mut |at, inv, ok| {
                    ticks += 1;
                    if !ok {
                        tick_fail = Some(format!("cron tick at {at} failed: {}", inv.exit));
                    }
                    let after = snap(v);
                    // all three oracle sets run after every tick that did work
                    if after.deals.len() != before_tick.deals.len() || after.escrow != before_tick.escrow || ticks % 16 == 0 {
                        check_ledger(&after, &mut o, &format!("tick at {at}"));
                    }
                    check_payments(&before_tick, &after, at, &BTreeMap::new(), &BTreeMap::new(), &mut reg, &mut o, &format!("tick at {at}"));
                    // bounded progress for unactivated deals: processed by the tick of their scheduled epoch
                    for (id, (p, ds)) in &after.deals {
                        if ds.is_none() && at > p.start_epoch + policy.deal_updates_interval {
                            o.violate("timeout_processed", "C08/unactivated_deal_not_removed", format!("tick at {at}: deal {id} with start {} never activated, still present", p.start_epoch));
                        }
                    }
                    before_tick = after;
                });
                if let Some(f) = tick_fail {
                    o.violate("cron", "C05/market_cron_failed", f);
                }
                o.add("ticks", ticks);
                prev = before_tick;
                o.op(format!("{step}: e{epoch} advance to {to} dense={dense} ticks={ticks}"));
                o.hash_mix(0x600 + (to - epoch).min(1000) as u64);
                continue;
            }
            _ => {
                // termination notice from a miner for some sectors
                let from = if rng.chance(9, 10) { rng.pick(&w.providers).miner } else { *rng.pick(&w.clients) };
                let secs: Vec<SectorNumber> = prev.sector_deals.keys().filter(|k| Address::new_id(k.0) == from).map(|k| k.1).collect();
                if secs.is_empty() {
                    continue;
                }
                let chosen = rng.subset(&secs, 1, 2);
                let (r, inv) = terminate(v, &from, epoch, &chosen);
                if let (true, Some(inv)) = (r.code.is_success(), &inv) {
                    terminated = terminations_in(inv);
                }
                desc = format!("OnMinerSectorsTerminate from {from} sectors {:?} -> {}", chosen, r.code);
            }
        }
        o.op(format!("{step}: e{epoch} {desc}"));
        o.hash_str(&desc[..desc.len().min(24)]);
        let after = snap(v);
        check_ledger(&after, &mut o, &format!("step {step}"));
        check_payments(&prev, &after, epoch, &terminated, &ext, &mut reg, &mut o, &format!("step {step}"));
        if focus == "C01" {
            o.count("conservation_checks");
            if v.total_balance() != total0 {
                o.violate("total_constant", "C01/total_fil_changed", format!("step {step}: sum of all balances {} -> {}", total0, v.total_balance()));
            }
            let se: TokenAmount = after.escrow.values().cloned().sum();
            if se > after.balance {
                o.violate("market_solvent", "C01/market_escrow_gt_balance", format!("step {step}: escrow total {se} > market balance {}", after.balance));
            }
        }
        // state-level activation must have been reported
        for (id, (_, ds)) in &after.deals {
            if ds.is_some() && reg.deals.get(id).is_some_and(|k| k.activated.is_none()) {
                o.violate("activation", "C08/activation_not_reported", format!("step {step}: deal {id} has activation state but no activation was reported for it"));
            }
        }
        if after.next_id < prev.next_id {
            o.violate("ids_increasing", "C08/next_id_decreased", format!("step {step}: next deal id {} -> {}", prev.next_id, after.next_id));
        }
        prev = after;
    }
    o.add("deals_published_total", reg.deals.len() as u64);
    let finished = reg.deals.values().filter(|k| k.gone_at.is_some()).count() as u64;
    o.add("deals_finished_total", finished);
    o.nontrivial = match focus {
        "C06" => published_ok >= 2 && o.counters.get("withdraw_ok").copied().unwrap_or(0) >= 1,
        "C07" => activations_ok >= 1 && finished >= 1,
        "C01" => published_ok >= 2,
        _ => published_ok >= 2 && activations_ok >= 1,
    };
    // only this property's violations count
    let prefix = format!("{focus}/");
    o.violations.retain(|x| x.signature.starts_with(&prefix));
    o
}

pub fn run(cfg: &Cfg) -> i32 {
    let mut agg = Agg::new(cfg);
    let tier = cfg.tier;
    let n = tier.pick(160, 2000);
    agg.run_parallel("market", n, Duration::from_secs(tier.pick(240, 1800)), |i, rng| history(i, rng, tier, "C06"));
    agg.finish(
        "exploration",
        "one history = 3-4 clients x 2 real miners (created through power.CreateMiner) and 70-110 ops: deposits, withdrawals (any amount, any caller), publish batches mixing valid / duplicate / mis-signed / foreign-provider / unfunded / late deals, activations through both entry points (arbitrary ids, repeated ids, short sectors, foreign miners), settlements by anyone, sector terminations, epoch advances to deal boundaries +-2 and far beyond (ticks at every epoch with scheduled work); ledger recomputed from raw state after every message and tick; non-trivial = at least 2 successful publishes and one successful withdrawal",
        tier.pick(40, 400),
        &["activation / termination notices are sent to the market from the miner actors' addresses directly (the MVM can originate a message from any actor)", "idle epochs between scheduled work are skipped; every epoch with scheduled market or power work is ticked"],
        serde_json::json!({}),
    )
}
