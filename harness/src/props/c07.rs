//! C07 — deal payments are exact and independent of the settlement schedule.
//! (1) per-message payment accounting + closed form at removal (shared history, market.rs);
//! (2) differential / metamorphic: one world prefix continued under k different schedules of
//!     settlements, cron processing and terminations must end with identical escrow balances.
use crate::framework::*;
use crate::market::*;
use crate::rng::Rng;
use crate::world::*;
use fil_actor_market::{AddBalanceParams, Method as MarketMethod, SectorDeals};
use fvm_shared::address::Address;
use fvm_shared::bigint::Zero;
use fvm_shared::clock::ChainEpoch;
use fvm_shared::deal::DealID;
use fvm_shared::econ::TokenAmount;
use fvm_shared::sector::SectorNumber;
use std::collections::BTreeMap;
use std::time::Duration;
use vm_api::VM;

pub fn differential(index: u64, mut rng: Rng, tier: Tier) -> Outcome {
    let mut o = Outcome::default();
    let w = market_world(90_000 + index, 2, 2);
    let v = &w.v;
    v.set_epoch(10 + rng.range(0, 50));
    for c in w.clients.iter().chain(w.providers.iter().map(|p| &p.miner)) {
        let (r, _) = call(v, &w.strangers[0], &MKT, &fil(1000), MarketMethod::AddBalance as u64, Some(&AddBalanceParams { provider_or_client: *c }));
        assert!(r.code.is_success());
    }
    // publish 2-5 deals with unique prices/collaterals, starts within a few days, min duration
    let nd = 2 + rng.below(4) as usize;
    let mut ids: Vec<DealID> = vec![];
    let mut props = BTreeMap::new();
    let e0 = v.epoch();
    for k in 0..nd {
        let prov = &w.providers[k % 2];
        let client = w.clients[rng.below(2) as usize];
        let start = e0 + rng.range(50, 2 * DAY);
        let dur = 180 * DAY + rng.range(0, 3) * rng.range(0, DAY);
        let p = make_proposal(index * 10 + k as u64, client, prov.miner, start, dur, 11 + rng.below(8) as u32, &format!("x{k}"));
        let (r, _, pr) = publish(v, &prov.worker, vec![signed(&w.keys, &p, &client)]);
        let pr = pr.unwrap_or_else(|| panic!("publish failed {} {}", r.code, r.message));
        ids.push(pr.ids[0]);
        props.insert(pr.ids[0], p);
    }
    // activate all but (sometimes) one
    let skip = if rng.chance(1, 3) { Some(ids[rng.below(nd as u64) as usize]) } else { None };
    let mut sector_of: BTreeMap<DealID, (Address, SectorNumber)> = BTreeMap::new();
    for (k, id) in ids.iter().enumerate() {
        if Some(*id) == skip {
            continue;
        }
        let p = &props[id];
        let sn = 100 + k as u64;
        let (r, _, br) = batch_activate(v, &p.provider, vec![SectorDeals { sector_number: sn, sector_type: seal_proof(), sector_expiry: p.end_epoch + DAY, deal_ids: vec![*id] }]);
        assert!(r.code.is_success() && br.unwrap().activation_results.success_count == 1);
        sector_of.insert(*id, (p.provider, sn));
    }
    // fixed termination plan shared by all schedules: (deal, epoch)
    let mut term_plan: Vec<(DealID, ChainEpoch)> = vec![];
    for id in &ids {
        if sector_of.contains_key(id) && rng.chance(1, 3) {
            let p = &props[id];
            let t = match rng.weighted(&[20, 20, 40, 20]) {
                0 => p.start_epoch - rng.range(1, 40).min(p.start_epoch - v.epoch() - 1).max(0),
                1 => p.start_epoch + rng.range(0, 2),
                2 => p.start_epoch + rng.range(1, 170 * DAY),
                _ => p.end_epoch - rng.range(1, 3),
            };
            term_plan.push((*id, t.max(v.epoch() + 1)));
        }
    }
    term_plan.sort_by_key(|x| x.1);
    let horizon = props.values().map(|p| p.end_epoch).max().unwrap() + 35 * DAY;
    let base = v.snapshot();
    o.op(format!("prefix: {} deals {:?}, unactivated {:?}, terminations {:?}, horizon {horizon}", nd, props.iter().map(|(i, p)| (*i, p.start_epoch, p.end_epoch)).collect::<Vec<_>>(), skip, term_plan));

    let nsched = tier.pick(5, 10);
    let mut finals: Vec<(String, BTreeMap<Address, TokenAmount>, TokenAmount)> = vec![];
    let parties: Vec<Address> = w.clients.iter().cloned().chain(w.providers.iter().map(|p| p.miner)).collect();
    for s in 0..nsched {
        v.restore(&base);
        let mut srng = rng.split();
        // settlement plan for this schedule
        let mut events: Vec<(ChainEpoch, u8, Vec<DealID>)> = vec![]; // (epoch, kind 0=settle 1=terminate, ids)
        for (id, t) in &term_plan {
            events.push((*t, 1, vec![*id]));
        }
        let style = if s == 0 { 0 } else if s == 1 { 1 } else { 2 + srng.below(2) };
        match style {
            0 => {}                                          // cron only
            1 => events.push((horizon - DAY, 0, ids.clone())), // one settlement after the end
            _ => {
                let k = 3 + srng.below(12);
                for _ in 0..k {
                    let id = *srng.pick(&ids);
                    let p = &props[&id];
                    let at = match srng.weighted(&[15, 15, 40, 15, 15]) {
                        0 => p.start_epoch - srng.range(0, 30),
                        1 => p.start_epoch + srng.range(0, 1),
                        2 => p.start_epoch + srng.range(1, p.end_epoch - p.start_epoch),
                        3 => p.end_epoch + srng.range(-1, 1),
                        _ => p.end_epoch + srng.range(2, 30 * DAY),
                    };
                    let which = if srng.chance(1, 2) { vec![id] } else { srng.subset(&ids, 1, 2) };
                    events.push((at.max(v.epoch() + 1), 0, which));
                }
            }
        }
        events.sort_by_key(|e| (e.0, e.1));
        let mut reg = Registry::default();
        for (id, p) in &props {
            reg.deals.insert(*id, KDeal { proposal: p.clone(), cid: proposal_cid(v, p), published_at: e0, activated: sector_of.get(id).map(|s| (e0, s.1)), activation_reports: 1, gone_at: None, terminated_at: None, paid: TokenAmount::zero() });
        }
        let mut prev = snap(v);
        let mut tick_err = None;
        let mut run_to = |to: ChainEpoch, prev: &mut MktSnap, reg: &mut Registry, o: &mut Outcome| {
            advance(v, to, false, &mut |at, inv, ok| {
                if !ok {
                    tick_err = Some(format!("tick at {at}: {}", inv.exit));
                }
                let after = snap(v);
                check_payments(prev, &after, at, &BTreeMap::new(), &BTreeMap::new(), reg, o, &format!("schedule {s} tick at {at}"));
                *prev = after;
            });
        };
        let mut desc = vec![];
        for (at, kind, which) in &events {
            if *at > v.epoch() {
                run_to(*at, &mut prev, &mut reg, &mut o);
            }
            let epoch = v.epoch();
            let mut terminated = BTreeMap::new();
            if *kind == 0 {
                let (r, _, _) = settle(v, &w.strangers[0], which);
                desc.push(format!("settle{:?}@{epoch}:{}", which, r.code));
                o.count("settle_calls");
            } else {
                let (prov, sn) = sector_of[&which[0]];
                let (r, inv) = terminate(v, &prov, epoch, &[sn]);
                if let (true, Some(inv)) = (r.code.is_success(), inv) {
                    terminated = terminations_in(&inv);
                }
                desc.push(format!("terminate{:?}@{epoch}:{}", which, r.code));
                o.count("terminate_calls");
            }
            let after = snap(v);
            check_payments(&prev, &after, epoch, &terminated, &BTreeMap::new(), &mut reg, &mut o, &format!("schedule {s} {}", desc.last().unwrap()));
            prev = after;
        }
        run_to(horizon, &mut prev, &mut reg, &mut o);
        // a final settlement of everything still present (cron does not reschedule manually settled deals)
        let left: Vec<DealID> = prev.deals.keys().cloned().collect();
        if !left.is_empty() {
            let epoch = v.epoch();
            settle(v, &w.strangers[0], &left);
            let after = snap(v);
            check_payments(&prev, &after, epoch, &BTreeMap::new(), &BTreeMap::new(), &mut reg, &mut o, &format!("schedule {s} final settle"));
            prev = after;
        }
        if !prev.deals.is_empty() {
            o.violate("completion", "C07/deals_left_after_horizon", format!("schedule {s}: deals {:?} still present 35 days after the last end epoch", prev.deals.keys().collect::<Vec<_>>()));
        }
        if let Some(e) = tick_err.take() {
            o.inconclusive.push(format!("cron failed: {e}"));
        }
        check_ledger(&prev, &mut o, &format!("schedule {s} end"));
        let fin: BTreeMap<Address, TokenAmount> = parties.iter().map(|a| (*a, prev.esc(a))).collect();
        o.op(format!("schedule {s} style {style}: {}", desc.join(" ")));
        o.hash_mix(style * 31 + desc.len() as u64);
        finals.push((format!("schedule {s} (style {style})"), fin, prev.burnt.clone()));
        o.count("schedules_run");
    }
    // all schedules must agree, and agree with the closed form
    let (n0, f0, b0) = &finals[0];
    for (n, f, b) in &finals[1..] {
        o.count("schedule_comparisons");
        if f != f0 || b != b0 {
            let diffs: Vec<String> = parties.iter().filter(|a| f[a] != f0[a]).map(|a| format!("{a}: {} vs {}", f0[a], f[a])).collect();
            o.violate("schedule_independent", "C07/final_balances_depend_on_schedule", format!("{n0} and {n} end with different escrow balances: {} (burnt {b0} vs {b})", diffs.join("; ")));
        }
    }
    // closed form for the provider side
    let mut want: BTreeMap<Address, TokenAmount> = parties.iter().map(|a| (*a, fil(1000))).collect();
    for (id, p) in &props {
        let term = term_plan.iter().find(|t| t.0 == *id).map(|t| t.1);
        if !sector_of.contains_key(id) {
            *want.get_mut(&p.provider).unwrap() -= &p.provider_collateral;
            continue;
        }
        let upto = term.map(|t| t.clamp(p.start_epoch, p.end_epoch)).unwrap_or(p.end_epoch);
        let pay = &p.storage_price_per_epoch * (upto - p.start_epoch);
        *want.get_mut(&p.client).unwrap() -= &pay;
        *want.get_mut(&p.provider).unwrap() += &pay;
        if term.is_some_and(|t| t < p.end_epoch) {
            *want.get_mut(&p.provider).unwrap() -= &p.provider_collateral;
        }
    }
    o.count("closed_form_world_checks");
    if &want != f0 {
        let diffs: Vec<String> = parties.iter().filter(|a| want[a] != f0[a]).map(|a| format!("{a}: expected {} got {}", want[a], f0[a])).collect();
        o.violate("closed_form", "C07/final_balances_ne_closed_form", format!("{n0}: {}", diffs.join("; ")));
    }
    o.nontrivial = true;
    o
}

pub fn run(cfg: &Cfg) -> i32 {
    let mut agg = Agg::new(cfg);
    let tier = cfg.tier;
    agg.run_parallel("differential", tier.pick(48, 800), Duration::from_secs(tier.pick(240, 1500)), |i, rng| differential(i, rng, tier));
    agg.run_parallel("market", tier.pick(96, 2500), Duration::from_secs(tier.pick(200, 1500)), |i, rng| super::c06::history(i, rng, tier, "C07"));
    agg.finish(
        "exploration",
        "workload `differential`: a world prefix (2-5 activated deals with unique prices, one possibly never activated, a fixed plan of early terminations) is continued from a snapshot under 5-10 schedules (cron only; one settlement after the end; many partial settlements placed before start, at start, mid-life, at end +-1 and long after), each run to 35 days past the last end; final escrow balances and burn must be identical across schedules and equal the closed form price x (min(end, termination) - start); workload `market`: the random market histories of C06 with per-message payment accounting (escrow deltas == price x cursor movement, cursor monotone, closed form at removal). Every history counts as non-trivial for `differential`; for `market` at least one activation and one finished deal",
        tier.pick(40, 400),
        &["activation / termination notices are sent from the miner actors' addresses directly", "idle epochs are skipped; every epoch with scheduled market or power work is ticked"],
        serde_json::json!({}),
    )
}
