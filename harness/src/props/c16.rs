//! C16 — payment channel: vouchers redeem once and the payout is exact.
//! History + executable reference model (the statement implemented literally; lanes merged are a
//! *set*).
use crate::framework::*;
use crate::mvm::Mvm;
use crate::rng::Rng;
use crate::world::*;
use fil_actor_paych::{
    ConstructorParams, LaneState, Merge, Method, ModVerifyParams, SETTLE_DELAY, SignedVoucher,
    State, UpdateChannelStateParams,
};
use fil_actors_runtime::runtime::Policy;
use fil_actors_runtime::test_utils::PAYCH_ACTOR_CODE_ID;
use fil_actors_runtime::{Array, INIT_ACTOR_ADDR};
use fvm_ipld_encoding::RawBytes;
use fvm_shared::METHOD_SEND;
use fvm_shared::address::Address;
use fvm_shared::bigint::Zero;
use fvm_shared::clock::ChainEpoch;
use fvm_shared::crypto::signature::{Signature, SignatureType};
use fvm_shared::econ::TokenAmount;
use std::collections::{BTreeMap, BTreeSet};
use std::time::Duration;
use vm_api::{Primitives, VM};

#[derive(Clone, Debug, Default)]
struct Model {
    lanes: BTreeMap<u64, (TokenAmount, u64)>,
    to_send: TokenAmount,
    settling_at: ChainEpoch,
    min_settle: ChainEpoch,
    collected: bool,
}

fn read_lanes(v: &Mvm, st: &State) -> BTreeMap<u64, (TokenAmount, u64)> {
    let arr: Array<LaneState, _> = Array::load(&st.lane_states, v.store.as_ref()).unwrap();
    let mut m = BTreeMap::new();
    arr.for_each(|i, l| {
        m.insert(i, (l.redeemed.clone(), l.nonce));
        Ok(())
    })
    .unwrap();
    m
}

pub fn history(index: u64, mut rng: Rng, tier: Tier, focus: &str) -> Outcome {
    let mut o = Outcome::default();
    let v = genesis(Policy::default());
    let total0 = v.total_balance();
    install_sig_scheme(&v);
    let accts = make_accounts(&v, 4, 1000 + index, &fil(10_000));
    let (from, to, outsider, third) = (accts[0], accts[1], accts[2], accts[3]);
    let keys: Vec<Address> = accts.iter().map(|a| key_of(&v, a)).collect();
    let funding = atto(1_000_000 + rng.below(1_000_000));
    // create channel
    let ctor = ConstructorParams { from, to };
    let (r, _) = call(
        &v,
        &from,
        &INIT_ACTOR_ADDR,
        &funding,
        fil_actor_init::Method::Exec as u64,
        Some(&fil_actor_init::ExecParams {
            code_cid: *PAYCH_ACTOR_CODE_ID,
            constructor_params: RawBytes::serialize(&ctor).unwrap(),
        }),
    );
    let er: fil_actor_init::ExecReturn = ret(&r).expect("paych create");
    let ch = er.id_address;
    let ch_robust = er.robust_address;
    o.op(format!("create channel {ch} from={from} to={to} funding={funding}"));
    let mut m = Model::default();
    let nops = tier.pick(40, 60);
    let mut amount_ctr: u64 = 1000 + rng.below(50);
    let secret = b"open sesame".to_vec();
    let secret_hash = v.primitives.hash_blake2b(&secret).to_vec();
    let mut accepted: Vec<(SignedVoucher, Vec<u8>)> = vec![];
    let mut n_accepted = 0u64;

    for step in 0..nops {
        if m.collected {
            break;
        }
        let kind = rng.weighted(&[60, 6, 5, 12, 5, 6]);
        let epoch = v.epoch();
        let pre_bal = v.balance(&ch);
        match kind {
            0 | 5 => {
                // voucher (5: replay of a previously accepted one)
                let caller_ix = rng.weighted(&[10, 10, 2]);
                let caller = [from, to, outsider][caller_ix];
                let params = if kind == 5 && !accepted.is_empty() {
                    o.count("voucher_replayed");
                    {
                        let (sv, secret) = rng.pick(&accepted).clone();
                        UpdateChannelStateParams { sv, secret }
                    }
                } else {
                    let lane = rng.below(4);
                    let known = m.lanes.get(&lane).cloned();
                    let nonce = match rng.weighted(&[70, 15, 15]) {
                        0 => known.as_ref().map(|k| k.1).unwrap_or(0) + 1 + rng.below(3),
                        1 => known.as_ref().map(|k| k.1).unwrap_or(0),
                        _ => rng.below(4),
                    };
                    amount_ctr += 1 + rng.below(5000);
                    let amount = match rng.weighted(&[60, 20, 10, 5, 5]) {
                        0 => atto(amount_ctr),
                        1 => atto(rng.below(amount_ctr)), // possibly decreasing
                        2 => atto(amount_ctr * 200),      // likely above balance
                        3 => TokenAmount::from_atto(-(rng.below(100) as i64)),
                        _ => TokenAmount::zero(),
                    };
                    let mut merges = vec![];
                    if rng.chance(35, 100) {
                        let k = 1 + rng.below(3);
                        for _ in 0..k {
                            let ml = rng.below(5);
                            let mk = m.lanes.get(&ml).map(|x| x.1).unwrap_or(0);
                            let mn = match rng.weighted(&[75, 25]) {
                                0 => mk + 1 + rng.below(3) + merges.len() as u64,
                                _ => rng.below(mk + 2),
                            };
                            merges.push(Merge { lane: ml, nonce: mn });
                        }
                        // deliberately repeat a lane sometimes
                        if rng.chance(25, 100) && !merges.is_empty() {
                            let mut d = merges[0];
                            d.nonce += 1 + rng.below(2);
                            merges.push(d);
                        }
                    }
                    let (tmin, tmax) = match rng.weighted(&[70, 10, 10, 10]) {
                        0 => (0, 0),
                        1 => (epoch + rng.range(0, 3), 0),
                        2 => (0, epoch - rng.range(-2, 2)),
                        _ => (epoch - 1, epoch + 1),
                    };
                    let use_secret = rng.chance(15, 100);
                    let extra = if rng.chance(10, 100) {
                        Some(if rng.chance(1, 2) {
                            ModVerifyParams { actor: third, method: METHOD_SEND, data: RawBytes::default() }
                        } else {
                            // PubkeyAddress handed garbage params by a non-readonly send: fails
                            ModVerifyParams { actor: INIT_ACTOR_ADDR, method: 77, data: RawBytes::new(vec![0x80]) }
                        })
                    } else {
                        None
                    };
                    let msh = match rng.weighted(&[75, 25]) {
                        0 => 0,
                        _ => epoch + rng.range(-5, 3000),
                    };
                    let chan_addr = match rng.weighted(&[80, 10, 10]) {
                        0 => ch,
                        1 => ch_robust,
                        _ => outsider,
                    };
                    let mut sv = SignedVoucher {
                        channel_addr: chan_addr,
                        time_lock_min: tmin,
                        time_lock_max: tmax,
                        secret_pre_image: if use_secret { secret_hash.clone() } else { vec![] },
                        extra,
                        lane,
                        nonce,
                        amount,
                        min_settle_height: msh,
                        merges,
                        signature: None,
                    };
                    // signer: the other party (correct), the caller itself, an outsider, or none
                    let other = if caller == from { 1usize } else { 0 };
                    let signer_ix = match rng.weighted(&[85, 6, 6, 3]) {
                        0 => Some(other),
                        1 => Some(if caller == from { 0 } else { 1 }),
                        2 => Some(2),
                        _ => None,
                    };
                    if let Some(si) = signer_ix {
                        let bytes = sign(&keys[si], &sv.signing_bytes().unwrap());
                        sv.signature = Some(Signature { sig_type: SignatureType::BLS, bytes });
                    }
                    let sec = if use_secret {
                        if rng.chance(80, 100) { secret.clone() } else { b"wrong".to_vec() }
                    } else {
                        vec![]
                    };
                    UpdateChannelStateParams { sv, secret: sec }
                };
                let (r, inv) = call(&v, &caller, &ch, &TokenAmount::zero(), Method::UpdateChannelState as u64, Some(&params));
                let ok = r.code.is_success();
                let sv = &params.sv;
                // ---- model ----
                // environment observations: did the extra call succeed, did authentication succeed
                let mut extra_ok = true;
                if let (Some(inv), Some(ex)) = (&inv, &sv.extra) {
                    let exid = v.resolve_id_address(&ex.actor);
                    for s in &inv.subs {
                        if Some(s.to) == exid && s.method == ex.method && !s.read_only {
                            extra_ok = s.ok();
                        }
                    }
                }
                let caller_is_party = caller == from || caller == to;
                let other_key = if caller == from { &keys[1] } else { &keys[0] };
                let sig_ok = sv.signature.as_ref().is_some_and(|s| s.bytes == sign(other_key, &sv.signing_bytes().unwrap()));
                let chan_ok = v.resolve_id_address(&sv.channel_addr) == Some(ch);
                let time_ok = epoch >= sv.time_lock_min && (sv.time_lock_max == 0 || epoch <= sv.time_lock_max);
                let secret_ok = sv.secret_pre_image.is_empty() || v.primitives.hash_blake2b(&params.secret).to_vec() == sv.secret_pre_image;
                let open = !(m.settling_at != 0 && epoch >= m.settling_at);
                let lane_nonce_ok = m.lanes.get(&sv.lane).is_none_or(|l| sv.nonce > l.1);
                let mut merges_ok = true;
                let mut merged: BTreeSet<u64> = BTreeSet::new();
                let mut repeated = false;
                let mut merge_nonce: BTreeMap<u64, u64> = BTreeMap::new();
                for mg in &sv.merges {
                    if mg.lane == sv.lane {
                        merges_ok = false;
                        break;
                    }
                    let Some(l) = m.lanes.get(&mg.lane) else {
                        merges_ok = false;
                        break;
                    };
                    let last = merge_nonce.get(&mg.lane).copied().unwrap_or(l.1);
                    if mg.nonce <= last {
                        merges_ok = false;
                        break;
                    }
                    merge_nonce.insert(mg.lane, mg.nonce);
                    if !merged.insert(mg.lane) {
                        repeated = true;
                    }
                }
                let mut expect_ok = caller_is_party && sig_ok && open && chan_ok && time_ok
                    && !sv.amount.is_negative() && secret_ok && extra_ok && lane_nonce_ok && merges_ok
                    && params.secret.len() <= 256;
                let mut new_to_send = m.to_send.clone();
                if expect_ok {
                    let mut already = m.lanes.get(&sv.lane).map(|l| l.0.clone()).unwrap_or_default();
                    for l in &merged {
                        already += &m.lanes[l].0;
                    }
                    new_to_send = &m.to_send + &sv.amount - already;
                    if new_to_send.is_negative() || new_to_send > pre_bal {
                        expect_ok = false;
                    }
                }
                o.count(if ok { "voucher_accepted" } else { "voucher_rejected" });
                o.op(format!(
                    "e{epoch} voucher caller={} lane={} nonce={} amount={} merges={:?} tl=({},{}) msh={} sig_ok={} -> {}",
                    caller, sv.lane, sv.nonce, sv.amount, sv.merges.iter().map(|x| (x.lane, x.nonce)).collect::<Vec<_>>(),
                    sv.time_lock_min, sv.time_lock_max, sv.min_settle_height, sig_ok, r.code
                ));
                o.hash_mix(((ok as u64) << 8) | sv.lane | (sv.merges.len() as u64) << 16);
                let shape = if repeated { "merge-lane-repeated" } else if !sv.merges.is_empty() { "with-merges" } else { "plain" };
                if ok && !expect_ok {
                    let why = format!(
                        "party={caller_is_party} sig={sig_ok} open={open} chan={chan_ok} time={time_ok} secret={secret_ok} extra={extra_ok} lane_nonce={lane_nonce_ok} merges={merges_ok} new_to_send={new_to_send} balance={pre_bal}"
                    );
                    o.violate(
                        "voucher_acceptance",
                        format!("C16/voucher_acceptance/accepted-but-model-rejects:{shape}"),
                        format!("step {step}: actor accepted a voucher that fails a necessary condition of the statement ({why})"),
                    );
                }
                if !ok && expect_ok {
                    // the statement gives necessary conditions only; a stricter actor is not a violation
                    o.count("voucher_rejected_though_model_accepts");
                    o.seen("stricter_rejections", format!("{shape}:{}", r.code));
                }
                if ok {
                    n_accepted += 1;
                    o.seen("voucher_shapes", shape);
                    accepted.push((params.sv.clone(), params.secret.clone()));
                    let st: State = state(&v, &ch).unwrap();
                    if expect_ok && st.to_send != new_to_send {
                        o.violate(
                            "to_send_delta",
                            format!("C16/to_send_delta/{shape}"),
                            format!("step {step}: to_send is {} after the voucher, the statement gives {} (before: {}, amount {}, merges {:?})",
                                st.to_send, new_to_send, m.to_send, sv.amount, sv.merges),
                        );
                    }
                    // adopt observed to_send so later steps are judged on their own
                    m.to_send = st.to_send.clone();
                    m.lanes.insert(sv.lane, (sv.amount.clone(), sv.nonce));
                    for (l, n) in &merge_nonce {
                        if let Some(e) = m.lanes.get_mut(l) {
                            e.1 = *n;
                        }
                    }
                    if sv.min_settle_height != 0 {
                        if m.settling_at != 0 && m.settling_at < sv.min_settle_height {
                            m.settling_at = sv.min_settle_height;
                        }
                        if m.min_settle < sv.min_settle_height {
                            m.min_settle = sv.min_settle_height;
                        }
                    }
                    if st.to_send > v.balance(&ch) {
                        o.violate("paych_solvent", "C01/paych_owes_more_than_it_holds", format!("step {step}: channel {ch} owes the payee {} but holds {}", st.to_send, v.balance(&ch)));
                    }
                    if st.to_send.is_negative() || st.to_send > v.balance(&ch) {
                        o.violate("to_send_bounds", "C16/to_send_bounds", format!("to_send {} outside [0, balance {}]", st.to_send, v.balance(&ch)));
                    }
                }
            }
            1 => {
                let caller = *rng.pick(&[from, to, outsider]);
                let (r, _) = call0(&v, &caller, &ch, &TokenAmount::zero(), Method::Settle as u64);
                let expect = (caller == from || caller == to) && m.settling_at == 0;
                o.op(format!("e{epoch} settle caller={caller} -> {}", r.code));
                o.count(if r.code.is_success() { "settle_ok" } else { "settle_rejected" });
                if r.code.is_success() && !expect {
                    o.violate("settle_acceptance", "C16/settle_acceptance", format!("step {step}: settle by {caller} returned {} (model expects accept={expect})", r.code));
                }
                if r.code.is_success() {
                    m.settling_at = std::cmp::max(epoch + SETTLE_DELAY, m.min_settle);
                    o.hash_mix(0x5e771e);
                }
            }
            2 => {
                let caller = *rng.pick(&[from, to, outsider]);
                let bal_to = v.balance(&to);
                let bal_from = v.balance(&from);
                let (r, inv) = call0(&v, &caller, &ch, &TokenAmount::zero(), Method::Collect as u64);
                let expect = (caller == from || caller == to) && m.settling_at != 0 && epoch >= m.settling_at;
                o.op(format!("e{epoch} collect caller={caller} settling_at={} -> {}", m.settling_at, r.code));
                o.count(if r.code.is_success() { "collect_ok" } else { "collect_rejected" });
                if r.code.is_success() && !expect {
                    o.violate("collect_acceptance", "C16/collect_acceptance",
                        format!("step {step}: collect by {caller} at epoch {epoch} returned {} (settling_at {} in model; expects accept={expect})", r.code, m.settling_at));
                }
                if r.code.is_success() {
                    m.collected = true;
                    o.hash_mix(0xc011ec7);
                    let got_to = v.balance(&to) - bal_to;
                    let got_from = v.balance(&from) - bal_from;
                    if got_to != m.to_send || got_from != &pre_bal - &m.to_send {
                        o.violate("collect_payout", "C16/collect_payout",
                            format!("payee got {got_to} (owed {}), payer got {got_from} (remainder {})", m.to_send, &pre_bal - &m.to_send));
                    }
                    if v.actor(&ch).is_some() {
                        o.violate("collect_payout", "C16/collect_actor_remains", "channel actor still exists after Collect".to_string());
                    }
                    let _ = inv;
                }
            }
            3 => {
                let d = match rng.weighted(&[50, 20, 30]) {
                    0 => rng.range(1, 20),
                    1 => SETTLE_DELAY - rng.range(0, 2),
                    _ => {
                        if m.settling_at != 0 { (m.settling_at - epoch + rng.range(-2, 1)).max(1) } else { rng.range(1, 400) }
                    }
                };
                v.set_epoch(epoch + d);
                o.op(format!("advance {d} -> e{}", epoch + d));
            }
            _ => {
                let amt = atto(1 + rng.below(100_000));
                let (r, _) = call0(&v, &from, &ch, &amt, METHOD_SEND);
                o.op(format!("fund {amt} -> {}", r.code));
            }
        }
        o.count("conservation_checks");
        if v.total_balance() != total0 {
            o.violate("total_constant", "C01/total_fil_changed", format!("step {step}: sum of all balances {} -> {}", total0, v.total_balance()));
        }
        if m.collected {
            continue;
        }
        // state agreement after every step
        let st: State = match state(&v, &ch) {
            Some(s) => s,
            None => {
                o.violate("state", "C16/state_missing", "channel state unreadable".to_string());
                break;
            }
        };
        o.count("state_comparisons");
        if st.settling_at != m.settling_at || st.min_settle_height != m.min_settle {
            o.violate("settle_height", "C16/settle_height",
                format!("step {step}: state settling_at={} min_settle={} but model {} / {}", st.settling_at, st.min_settle_height, m.settling_at, m.min_settle));
            m.settling_at = st.settling_at;
            m.min_settle = st.min_settle_height;
        }
        let lanes = read_lanes(&v, &st);
        if lanes != m.lanes {
            o.violate("lane_state", "C16/lane_state", format!("step {step}: lanes {:?} but model {:?}", lanes, m.lanes));
            m.lanes = lanes;
        }
        if st.to_send != m.to_send {
            o.violate("to_send_stable", "C16/to_send_changed_without_voucher", format!("step {step}: to_send {} model {}", st.to_send, m.to_send));
            m.to_send = st.to_send.clone();
        }
    }
    o.nontrivial = n_accepted >= 2;
    let prefix = format!("{focus}/");
    o.violations.retain(|x| x.signature.starts_with(&prefix));
    o
}

pub fn run(cfg: &Cfg) -> i32 {
    let mut agg = Agg::new(cfg);
    let tier = cfg.tier;
    let n = tier.pick(3000, 60_000);
    agg.run_parallel("paych", n, Duration::from_secs(tier.pick(120, 1500)), |i, rng| history(i, rng, tier, "C16"));
    agg.finish(
        "exploration",
        "one history = one channel with 40-60 random ops (vouchers over 4 lanes with unique amounts, merges incl. repeated/unknown/own lanes, replays, wrong signer/channel/secret/time lock, settle, collect, epoch advances around settling_at); non-trivial = at least 2 vouchers accepted; distinct by hash of (outcome, lane, merge count) sequence",
        tier.pick(50, 500),
        &["MVM message semantics equal the FVM's for sends, value transfer and actor deletion", "signature scheme is the harness's (key bytes ++ message)"],
        serde_json::json!({}),
    )
}
