//! C18 — EVM execution is total, bounded and respects read-only mode.
//! Arbitrary bytes as init code / runtime code / calldata run on the real actor (with the guarded
//! interpreter hooks providing a step watchdog, the stack high-water mark, the memory size and the
//! taken jumps); static wrappers STATICCALL effectful callees at depth 1-3 and the MVM's state-tree
//! roots around every read-only invocation decide "nothing took effect".
use super::c17::{REF_MEM_LIMIT, REF_STEP_LIMIT, class_of_actor, class_of_ref, deploy_runtime, screen};
use crate::evm::{self, Asm, op};
use crate::evmgen::*;
use crate::framework::*;
use crate::mvm::{Inv, Mvm};
use crate::refevm::{self, Ctx as RefCtx};
use crate::rng::Rng;
use crate::world::*;
use fil_actor_evm::interpreter::verif as hook;
use fil_actors_runtime::runtime::Policy;
use fvm_shared::address::Address;
use fvm_shared::bigint::Zero;
use fvm_shared::econ::TokenAmount;
use std::collections::BTreeMap;
use std::time::Duration;
use vm_api::VM;

pub const STEP_WATCHDOG: u64 = 300_000;
pub const MEM_CAP: usize = 32 << 20;

/// callee whose behaviour is selected by calldata[0]: one state-changing effect each
pub fn effectful_runtime(other: &[u8; 20]) -> Vec<u8> {
    let mut a = Asm::new();
    a.op(op::PUSH0).op(op::CALLDATALOAD).push(248).op(op::SHR);
    let names = ["sstore", "tstore", "log", "callvalue", "create", "create2", "selfdestruct", "nested", "delegate"];
    for (i, n) in names.iter().enumerate() {
        a.op(op::DUP1).push(i as u64).op(op::EQ).push_label(n).op(op::JUMPI);
    }
    a.op(op::STOP);
    let done = |a: &mut Asm| {
        a.push(1).op(op::PUSH0).op(op::MSTORE).push(32).op(op::PUSH0).op(op::RETURN);
    };
    a.label("sstore");
    a.push(0x2a).push(1).op(op::SSTORE);
    done(&mut a);
    a.label("tstore");
    a.push(0x2b).push(2).op(op::TSTORE);
    done(&mut a);
    a.label("log");
    a.push(0xbeef).op(op::PUSH0).op(op::PUSH0).op(op::LOG0 + 1);
    done(&mut a);
    a.label("callvalue");
    // CALL(gas, to, value=1, 0,0,0,0)
    a.op(op::PUSH0).op(op::PUSH0).op(op::PUSH0).op(op::PUSH0).push(1).push_bytes(other).op(op::GAS).op(op::CALL).op(op::POP);
    done(&mut a);
    a.label("create");
    // CREATE(value 0, offset 0, size 1): init code = single STOP byte (memory is zero)
    a.push(1).op(op::PUSH0).op(op::PUSH0).op(op::CREATE).op(op::POP);
    done(&mut a);
    a.label("create2");
    a.push(7).push(1).op(op::PUSH0).op(op::PUSH0).op(op::CREATE2).op(op::POP);
    done(&mut a);
    a.label("selfdestruct");
    a.push_bytes(other).op(op::SELFDESTRUCT);
    a.label("nested");
    // CALL other with calldata [0] (its sstore branch), value 0
    a.op(op::PUSH0).op(op::PUSH0).push(1).op(op::PUSH0).op(op::PUSH0).push_bytes(other).op(op::GAS).op(op::CALL).op(op::POP);
    done(&mut a);
    a.label("delegate");
    a.op(op::PUSH0).op(op::PUSH0).push(1).op(op::PUSH0).push_bytes(other).op(op::GAS).op(op::DELEGATECALL).op(op::POP);
    done(&mut a);
    a.finish()
}

/// wrapper: STATICCALL(target = calldata[0..32] as address word, args = calldata[32..]) and return
/// [success word | returndata]
pub fn static_wrapper_runtime() -> Vec<u8> {
    let mut a = Asm::new();
    // copy args to memory 0
    a.push(32).op(op::CALLDATASIZE).op(op::SUB); // size
    a.op(op::DUP1).push(32).op(op::PUSH0).op(op::CALLDATACOPY); // [size]
    // STATICCALL(gas, addr, argsOffset, argsSize, retOffset, retSize)
    a.op(op::PUSH0).op(op::PUSH0).op(op::DUP1 + 2).op(op::PUSH0).op(op::PUSH0).op(op::CALLDATALOAD).op(op::GAS).op(op::STATICCALL);
    // [size, success] -> mem[0] = success ; copy returndata after it
    a.op(op::PUSH0).op(op::MSTORE).op(op::POP);
    a.op(op::RETURNDATASIZE).op(op::PUSH0).push(32).op(op::RETURNDATACOPY);
    a.op(op::RETURNDATASIZE).push(32).op(op::ADD).op(op::PUSH0).op(op::RETURN);
    a.finish()
}

fn check_trace(inv: &Inv, o: &mut Outcome, what: &str) {
    inv.walk(&mut |i, _, _| {
        if i.read_only {
            o.count("read_only_invocations_checked");
            if let (Some(a), Some(b)) = (i.root_pre, i.root_post)
                && a != b
            {
                o.violate("read_only", "C18/state_changed_in_static_context", format!("{what}: read-only invocation {} -> {} method {} changed the state tree ({a} -> {b})", i.from, i.to, i.method));
            }
            if !i.events.is_empty() {
                o.violate("read_only", "C18/event_emitted_in_static_context", format!("{what}: read-only invocation {} -> {} emitted {} events", i.from, i.to, i.events.len()));
            }
            if !i.value.is_zero() && i.ok() {
                o.violate("read_only", "C18/value_moved_in_static_context", format!("{what}: read-only invocation moved {}", i.value));
            }
        }
    });
}

fn check_hooks(code_lens: &BTreeMap<usize, Vec<bool>>, o: &mut Outcome, what: &str) -> bool {
    let r = hook::take();
    o.add("interpreter_steps", r.steps);
    if r.max_stack > 1024 {
        o.violate("stack_bound", "C18/stack_exceeded_1024", format!("{what}: stack high-water mark {}", r.max_stack));
    }
    if r.max_mem > MEM_CAP + 64 {
        o.violate("memory_bound", "C18/memory_above_cap", format!("{what}: memory grew to {} bytes", r.max_mem));
    }
    for (len, from, to) in &r.jumps {
        o.count("jumps_checked");
        if let Some(d) = code_lens.get(len) {
            if !d.get(*to as usize).copied().unwrap_or(false) {
                o.violate("jumpdest", "C18/jump_to_invalid_destination", format!("{what}: jump from pc {from} landed on pc {to}, which is not a JUMPDEST outside push data (code length {len})"));
            }
        } else {
            o.count("jumps_in_unknown_code");
        }
    }
    for (i, n) in r.opcodes.iter().enumerate() {
        if *n > 0 {
            o.seen("opcodes_executed", format!("{i:02x}"));
        }
    }
    if r.watchdog {
        o.count("watchdog_stopped_runs");
    }
    !r.watchdog
}

pub fn batch(index: u64, rng: Rng, tier: Tier) -> Outcome {
    batch_n(index, rng, tier.pick(220, 220))
}

/// `vh evm-mini <seed> <n>`: the same monitors over a short batch, as the workload of the Miri /
/// valgrind / ASan passes (exit 1 on any monitor violation; the sanitizer reports by itself)
pub fn mini(seed: u64, n: u64) -> i32 {
    let o = batch_n(seed, Rng::derive(seed, "evm-mini", 0), n);
    println!("evm-mini seed={seed} n={n} counters={:?}", o.counters);
    for v in &o.violations {
        println!("MONITOR-VIOLATION {} {}", v.signature, v.detail);
    }
    if o.violations.is_empty() { 0 } else { 1 }
}

pub fn batch_n(index: u64, mut rng: Rng, n: u64) -> Outcome {
    let mut o = Outcome::default();
    let v = genesis(Policy::default());
    let accts = make_accounts(&v, 2, 18_000 + index, &fil(1000));
    let from = accts[0];
    hook::reset(STEP_WATCHDOG, MEM_CAP);
    // every other batch runs without the kernel's read-only backstop for events (TestVM semantics):
    // there only the interpreter's own guard keeps a LOG beneath STATICCALL from taking effect
    v.lenient_read_only_events.set(index % 2 == 1);
    if index % 2 == 1 {
        o.count("batches_without_kernel_event_backstop");
    }
    // fixtures for the read-only part
    let sink = deploy_runtime(&v, &from, &effectful_runtime(&[0x11; 20])).expect("sink");
    let eff = deploy_runtime(&v, &from, &effectful_runtime(&sink.eth)).expect("effectful");
    let wrap = deploy_runtime(&v, &from, &static_wrapper_runtime()).expect("wrapper");
    for c in [&sink, &eff] {
        call0(&v, &from, &Address::new_id(c.id), &atto(1000), fvm_shared::METHOD_SEND);
    }
    let mut dests: BTreeMap<usize, Vec<bool>> = BTreeMap::new();
    for c in [&sink, &eff, &wrap] {
        let st = evm::evm_state(&v, c.id).unwrap();
        let code = vm_api::util::DynBlockstore::wrap(v.blockstore());
        let _ = (&st, &code);
    }
    dests.insert(effectful_runtime(&[0x11; 20]).len(), refevm::jumpdests(&effectful_runtime(&[0x11; 20])));
    dests.insert(static_wrapper_runtime().len(), refevm::jumpdests(&static_wrapper_runtime()));
    let fixture_lens: Vec<usize> = dests.keys().cloned().collect();
    hook::take();
    let mut ran = 0u64;
    for pi in 0..n {
        match rng.weighted(&[30, 20, 15, 10, 25]) {
            // ---- arbitrary bytes as runtime code + calldata
            k @ (0 | 1 | 2) => {
                let p = match k {
                    0 => random_bytes(&mut rng),
                    1 => {
                        if rng.chance(1, 4) {
                            gen_mem_edge(&mut rng)
                        } else {
                            let b = gen_structured(&mut rng);
                            mutate(&mut rng, &b)
                        }
                    }
                    _ => gen_stack_edge(&mut rng),
                };
                if p.code.first() == Some(&0xEF) || fixture_lens.contains(&p.code.len()) {
                    continue;
                }
                dests.insert(p.code.len(), refevm::jumpdests(&p.code));
                o.hash_mix(p.code.iter().take(16).fold(p.code.len() as u64, |a, b| a.wrapping_mul(257).wrapping_add(*b as u64)));
                let Some(c) = deploy_runtime(&v, &from, &p.code) else {
                    o.count("deploy_rejected");
                    hook::take();
                    continue;
                };
                hook::take();
                for cd in &p.calldatas {
                    let (r, inv) = evm::invoke(&v, &from, &Address::new_id(c.id), cd, &TokenAmount::zero());
                    ran += 1;
                    o.count("invocations");
                    let what = format!("batch {index} program {pi} ({}) code {} calldata {}", p.kind, hex::encode(&p.code[..p.code.len().min(80)]), hex::encode(&cd[..cd.len().min(40)]));
                    if r.panicked {
                        o.violate("total", "C18/panic", format!("{what}: the actor panicked"));
                        v.panics.borrow_mut().clear();
                    }
                    o.seen("exit_codes", format!("{}", r.code.value()));
                    let completed = check_hooks(&dests, &mut o, &what);
                    if let Some(inv) = &inv {
                        check_trace(inv, &mut o, &what);
                    }
                    // where the reference applies, the outcome class must agree as well
                    if completed {
                        let ctx = RefCtx { code: p.code.clone(), calldata: cd.clone(), storage: BTreeMap::new(), transient: BTreeMap::new(), step_limit: REF_STEP_LIMIT, mem_limit: REF_MEM_LIMIT };
                        let out = refevm::run(&ctx);
                        if screen(&out).is_ok() && p.calldatas.len() == 1 {
                            o.count("reference_comparisons");
                            let want = class_of_ref(&out.halt).unwrap();
                            if class_of_actor(&r) != want {
                                o.violate("outcome_equal", format!("C17/outcome_differs:{}", p.kind), format!("{what}: actor exit {} data {}, specification {:?}", r.code, hex::encode(&r.data[..r.data.len().min(40)]), want));
                            }
                            if out.max_stack > 1024 {
                                o.inconclusive.push("reference exceeded 1024 stack items".into());
                            }
                        }
                    }
                    break;
                }
            }
            // ---- arbitrary bytes as init code
            3 => {
                let p = if rng.chance(1, 2) { random_bytes(&mut rng) } else { gen_structured(&mut rng) };
                if fixture_lens.contains(&p.code.len()) {
                    continue;
                }
                o.hash_mix(p.code.iter().take(16).fold(p.code.len() as u64, |a, b| a.wrapping_mul(257).wrapping_add(*b as u64)));
                dests.insert(p.code.len(), refevm::jumpdests(&p.code));
                let (res, inv) = evm::deploy(&v, &from, &p.code, &TokenAmount::zero());
                ran += 1;
                o.count("constructor_runs");
                let what = format!("batch {index} init code {}", hex::encode(&p.code[..p.code.len().min(80)]));
                if !v.panics.borrow().is_empty() {
                    o.violate("total", "C18/panic", format!("{what}: the actor panicked"));
                    v.panics.borrow_mut().clear();
                }
                o.seen("constructor_outcomes", match &res { Ok(_) => "deployed".to_string(), Err(e) => format!("exit {}", e.value()) });
                check_hooks(&dests, &mut o, &what);
                if let Some(inv) = &inv {
                    check_trace(inv, &mut o, &what);
                }
            }
            // ---- read-only: effects beneath STATICCALL at depth 1..3
            _ => {
                let effect = rng.below(9) as u8;
                let depth = 1 + rng.below(3);
                // innermost args: [effect]; each level wraps: [addr word of next][args]
                let mut cd = vec![effect];
                let mut target = eff.eth;
                for _ in 1..depth {
                    let mut outer = evm::addr_word(&target).to_vec();
                    outer.extend_from_slice(&cd);
                    cd = outer;
                    target = wrap.eth;
                }
                let mut top = evm::addr_word(&target).to_vec();
                top.extend_from_slice(&cd);
                let root0 = v.checkpoint();
                let bal0: Vec<TokenAmount> = [&sink, &eff, &wrap].iter().map(|c| v.balance(&Address::new_id(c.id))).collect();
                let seq_snapshot = v.snapshot();
                let (r, inv) = evm::invoke(&v, &from, &Address::new_id(wrap.id), &top, &TokenAmount::zero());
                ran += 1;
                o.count("static_runs");
                o.seen("static_effects", format!("effect{effect}@depth{depth}"));
                let what = format!("batch {index} static effect {effect} at depth {depth}");
                if r.panicked {
                    o.violate("total", "C18/panic", format!("{what}: the actor panicked"));
                    v.panics.borrow_mut().clear();
                }
                check_hooks(&dests, &mut o, &what);
                if let Some(inv) = &inv {
                    check_trace(inv, &mut o, &what);
                    // nothing beneath the wrapper took effect: storage of the callee, balances, no new actors
                    let bal1: Vec<TokenAmount> = [&sink, &eff, &wrap].iter().map(|c| v.balance(&Address::new_id(c.id))).collect();
                    if bal0 != bal1 {
                        o.violate("read_only", "C18/value_moved_in_static_context", format!("{what}: balances {:?} -> {:?}", bal0, bal1));
                    }
                    for c in [&sink, &eff] {
                        for k in [evm::word(1), evm::word(2)] {
                            if evm::storage_at(&v, &Address::new_id(c.id), &k).unwrap_or([0; 32]) != [0u8; 32] {
                                o.violate("read_only", "C18/storage_written_in_static_context", format!("{what}: contract {} slot {} is set", c.id, k[31]));
                            }
                        }
                        if evm::evm_state(&v, c.id).is_some_and(|s| s.tombstone.is_some()) {
                            o.violate("read_only", "C18/selfdestruct_in_static_context", format!("{what}: contract {} carries a tombstone", c.id));
                        }
                    }
                    let mut events = 0;
                    inv.walk(&mut |i, _, anc| {
                        if anc && i.ok() {
                            events += i.events.len();
                        }
                    });
                    if events > 0 {
                        o.violate("read_only", "C18/event_emitted_in_static_context", format!("{what}: {events} events survived"));
                    }
                    // the wrappers nest [success word | return data]; the innermost success word is the
                    // STATICCALL into the effectful callee
                    let inner = 32 * (depth as usize - 1);
                    if r.code.is_success() && r.data.len() >= inner + 32 {
                        o.count("innermost_static_call_results_checked");
                    }
                    if r.code.is_success() && r.data.len() >= inner + 32 && r.data[inner + 31] == 1 {
                        // not a violation by itself (the property is about effects, which are checked
                        // above): nested calls swallow the inner failure and return normally
                        o.count(&format!("static_callee_returned_normally_effect{effect}"));
                    }
                }
                let _ = (root0, seq_snapshot);
                // sanity, rarely: the same effect outside a static context does take effect
                if rng.chance(1, 12) && effect == 0 {
                    let snap = v.snapshot();
                    let (r2, _) = evm::invoke(&v, &from, &Address::new_id(eff.id), &[0u8], &TokenAmount::zero());
                    hook::take();
                    if r2.code.is_success() && evm::storage_at(&v, &Address::new_id(eff.id), &evm::word(1)).unwrap_or([0; 32]) == evm::word(0x2a) {
                        o.count("effects_take_effect_when_not_static");
                    }
                    v.restore(&snap);
                }
            }
        }
        o.hash_mix(pi as u64);
    }
    o.nontrivial = ran >= 100;
    o
}

pub fn run(cfg: &Cfg) -> i32 {
    let mut agg = Agg::new(cfg);
    let tier = cfg.tier;
    agg.run_parallel("bytes", tier.pick(480, 20000), Duration::from_secs(tier.pick(200, 1700)), |i, rng| {
        let mut o = batch(i, rng, tier);
        o.violations.retain(|x| x.signature.starts_with("C18/"));
        o
    });
    agg.finish(
        "exploration",
        "one evaluation = a batch of 220 runs in one world: arbitrary byte strings (random with a bias to defined opcodes, mutations of structured programs, stack-limit programs at 1021-1025 items) deployed as runtime code and invoked with random calldata, arbitrary bytes run as init code, and static wrappers that STATICCALL (depth 1-3) a callee attempting SSTORE / TSTORE / LOG / CALL with value / CREATE / CREATE2 / SELFDESTRUCT / a nested CALL that writes / DELEGATECALL to writing code. Monitors: no panic, interpreter hooks (stack high-water mark <= 1024, memory <= cap, every taken jump lands on a byte my own analysis marks as JUMPDEST outside push data, step watchdog), MVM state-tree roots equal around every read-only invocation, no events, no value, no storage, no tombstone. Non-trivial batch = at least 100 runs",
        tier.pick(200, 5000),
        &["interpreter hooks (cargo feature verif-hooks of fil_actor_evm) are additive observation points; the step watchdog and memory cap turn runaway programs into inconclusive runs", "Miri / ASan passes over the interpreter are separate commands (see DESIGN.md 2.5)"],
        serde_json::json!({"sanitizers": std::env::var("VH_SANITIZER_REPORT").ok().and_then(|p| std::fs::read_to_string(p).ok()).and_then(|s| serde_json::from_str::<serde_json::Value>(&s).ok()).unwrap_or(serde_json::json!("not run in this invocation (use /verif/check C18 <tier>)"))}),
    )
}
