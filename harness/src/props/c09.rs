//! C09 — DataCap is conserved and each allocation is spent exactly once.
//! Ledger model over the verified registry and the DataCap token: supply == sum of balances ==
//! minted - burnt (from observed calls), verifier caps, registry balance == unclaimed allocations,
//! one terminal transition per allocation id.
use crate::framework::*;
use crate::market::{DAY, create_miner};
use crate::rng::Rng;
use crate::verif::*;
use crate::world::*;
use fil_actor_verifreg::{
    AddVerifiedClientParams, AllocationClaim, AllocationRequest, ClaimAllocationsParams,
    ClaimAllocationsReturn, ClaimExtensionRequest, ClaimTerm, ExtendClaimTermsParams,
    Method as VerifregMethod, RemoveDataCapParams, RemoveDataCapProposal,
    RemoveDataCapProposalID, RemoveDataCapRequest, RemoveExpiredAllocationsParams,
    RemoveExpiredClaimsParams, RemoveVerifierParams, SIGNATURE_DOMAIN_SEPARATION_REMOVE_DATA_CAP,
    SectorAllocationClaims, VerifierParams,
};
use fil_actors_runtime::runtime::Policy;
use fil_actors_runtime::test_utils::make_piece_cid;
use fil_actors_runtime::{STORAGE_MARKET_ACTOR_ADDR, VERIFIED_REGISTRY_ACTOR_ID};
use fvm_ipld_encoding::RawBytes;
use fvm_shared::address::Address;
use fvm_shared::bigint::{BigInt, Zero};
use fvm_shared::clock::ChainEpoch;
use fvm_shared::crypto::signature::{Signature, SignatureType};
use fvm_shared::econ::TokenAmount;
use fvm_shared::piece::PaddedPieceSize;
use fvm_shared::sector::RegisteredPoStProof;
use std::collections::{BTreeMap, BTreeSet};
use std::time::Duration;
use vm_api::VM;

#[derive(Clone, Debug, PartialEq)]
enum AllocFate {
    Open,
    Claimed,
    Refunded,
}

pub fn history(index: u64, mut rng: Rng, tier: Tier) -> Outcome {
    let mut o = Outcome::default();
    let v = genesis(Policy::default());
    install_sig_scheme(&v);
    v.set_epoch(10 + rng.range(0, 100));
    let accts = make_accounts(&v, 11, 9_000_000 + index, &fil(1_000_000));
    let secp: Vec<Address> = accts.iter().cloned().enumerate().filter(|(i, _)| i % 2 == 0).map(|x| x.1).collect();
    let bls: Vec<Address> = accts.iter().cloned().enumerate().filter(|(i, _)| i % 2 == 1).map(|x| x.1).collect();
    let miners: Vec<Address> = (0..2).map(|k| create_miner(&v, &secp[k], &bls[k], RegisteredPoStProof::StackedDRGWindow32GiBV1P1)).collect();
    let verifiers = [secp[2], bls[2]];
    let clients = [secp[3], bls[3], secp[4]];
    let stranger = bls[4];
    let keys: BTreeMap<Address, Address> = accts.iter().map(|a| (*a, key_of(&v, a))).collect();
    let policy = Policy::default();
    let min_size: u64 = 1 << 20;
    // bootstrap (most histories): verifiers with caps, clients with DataCap
    let mut minted = TokenAmount::zero();
    if rng.chance(5, 6) {
        for ver in &verifiers {
            let (_, _, ok) = via_root(&v, VerifregMethod::AddVerifier, &VerifierParams { address: *ver, allowance: BigInt::from(256 * min_size) });
            assert!(ok);
        }
        for (k, c) in clients.iter().enumerate() {
            let amt = BigInt::from((16 + 8 * k as u64) * min_size);
            let (r, _) = call(&v, &verifiers[k % 2], &VR, &TokenAmount::zero(), VerifregMethod::AddVerifiedClient as u64, Some(&AddVerifiedClientParams { address: *c, allowance: amt.clone() }));
            assert!(r.code.is_success());
            minted += TokenAmount::from_whole(amt);
        }
    }
    let mut prev = snap_vr(&v);
    let mut burnt = TokenAmount::zero();
    let mut fate: BTreeMap<u64, AllocFate> = BTreeMap::new();
    let mut alloc_rec: BTreeMap<u64, fil_actor_verifreg::Allocation> = BTreeMap::new();
    let mut claim_term_max: BTreeMap<u64, ChainEpoch> = BTreeMap::new();
    let mut removal_ids: BTreeMap<(Address, Address), u64> = BTreeMap::new();
    let mut piece_ctr = 0u64;
    let nops = tier.pick(70, 110);
    let mut terminal = 0u64;

    for step in 0..nops {
        let epoch = v.epoch();
        let kind = rng.weighted(&[6, 10, 26, 24, 8, 6, 5, 4, 4, 9]);
        let open: Vec<u64> = prev.allocs.keys().cloned().collect();
        let claim_ids: Vec<u64> = prev.claims.keys().cloned().collect();
        let mut claim_requests: Vec<(Address, ChainEpoch, Vec<AllocationClaim>)> = vec![];
        let (desc, r, inv): (String, vm_api::MessageResult, Option<crate::mvm::Inv>) = match kind {
            0 => {
                if rng.chance(5, 6) {
                    let ver = *rng.pick(&[verifiers[0], verifiers[1], clients[0]]);
                    let cap = BigInt::from(match rng.weighted(&[80, 20]) { 0 => (8 + rng.below(64)) * min_size, _ => rng.below(min_size) });
                    let (r, inv, ok) = via_root(&v, VerifregMethod::AddVerifier, &VerifierParams { address: ver, allowance: cap.clone() });
                    (format!("root AddVerifier({ver}, {cap}) -> {} inner_ok={ok}", r.code), r, inv)
                } else {
                    let ver = *rng.pick(&verifiers);
                    let (r, inv, ok) = via_root(&v, VerifregMethod::RemoveVerifier, &RemoveVerifierParams { verifier: ver });
                    (format!("root RemoveVerifier({ver}) -> {} inner_ok={ok}", r.code), r, inv)
                }
            }
            1 => {
                let caller = *rng.pick(&[verifiers[0], verifiers[1], verifiers[0], stranger, clients[0]]);
                let client = *rng.pick(&[clients[0], clients[1], clients[2], verifiers[1]]);
                let cap = prev.verifiers.get(&caller).cloned().unwrap_or_default();
                let allowance = match rng.weighted(&[70, 15, 15]) {
                    0 => BigInt::from((1 + rng.below(8)) * min_size),
                    1 => cap.clone() + 1,
                    _ => cap.clone(),
                };
                let (r, inv) = call(&v, &caller, &VR, &TokenAmount::zero(), VerifregMethod::AddVerifiedClient as u64, Some(&AddVerifiedClientParams { address: client, allowance: allowance.clone() }));
                (format!("AddVerifiedClient({client}, {allowance}) by {caller} (cap {cap}) -> {}", r.code), r, inv)
            }
            2 => {
                // allocation / extension requests through a datacap transfer
                let client = *rng.pick(&clients);
                let n = 1 + rng.below(3);
                let mut reqs = vec![];
                let mut total = 0u64;
                for _ in 0..n {
                    piece_ctr += 1;
                    let size = min_size << rng.below(3);
                    let tmin = policy.minimum_verified_allocation_term + rng.range(0, 30) * DAY;
                    reqs.push(AllocationRequest {
                        provider: if rng.chance(9, 10) { rng.pick(&miners).id().unwrap() } else { stranger.id().unwrap() },
                        data: make_piece_cid(format!("p{index}-{piece_ctr}").as_bytes()),
                        size: PaddedPieceSize(size),
                        term_min: tmin,
                        term_max: tmin + rng.range(0, 100) * DAY,
                        expiration: epoch + match rng.weighted(&[70, 18, 12]) { 0 => rng.range(5 * DAY, 60 * DAY), 1 => rng.range(0, 20), _ => rng.range(60 * DAY - 5, 60 * DAY + 5) },
                    });
                    total += size;
                }
                let mut exts = vec![];
                if rng.chance(1, 4) && !claim_ids.is_empty() {
                    let cid = *rng.pick(&claim_ids);
                    let c = &prev.claims[&cid];
                    exts.push(ClaimExtensionRequest { provider: c.provider, claim: cid, term_max: c.term_max + rng.range(-2, 200 * DAY) });
                    total += c.size.0;
                    if rng.chance(1, 5) {
                        exts.push(exts[0].clone());
                    }
                }
                let amount = match rng.weighted(&[70, 15, 15]) {
                    0 => whole(total),
                    1 => whole(total) - whole(rng.below(total / min_size + 1) * min_size),
                    _ => whole(total + min_size),
                };
                let via_operator = rng.chance(1, 4);
                let (r, inv) = if via_operator && exts.is_empty() {
                    transfer_from_to_registry(&v, &STORAGE_MARKET_ACTOR_ADDR, &client, &amount, reqs.clone())
                } else {
                    transfer_to_registry(&v, &client, &amount, reqs.clone(), exts.clone())
                };
                (format!("datacap transfer {amount} from {client} with {} allocation requests (sizes total {total}) {} extensions operator={via_operator} -> {}", reqs.len(), exts.len(), r.code), r, inv)
            }
            3 => {
                // ClaimAllocations from a miner actor
                if open.is_empty() {
                    continue;
                }
                let miner = if rng.chance(9, 10) { *rng.pick(&miners) } else { stranger };
                let nsec = 1 + rng.below(2);
                let mut sectors = vec![];
                for s in 0..nsec {
                    let k = 1 + rng.below(3);
                    let mut claims = vec![];
                    for _ in 0..k {
                        let id = if rng.chance(9, 10) { *rng.pick(&open) } else { rng.below(prev.next_id + 2) };
                        let a = prev.allocs.get(&id);
                        let mut c = AllocationClaim {
                            client: a.map(|a| a.client).unwrap_or(clients[0].id().unwrap()),
                            allocation_id: id,
                            data: a.map(|a| a.data).unwrap_or(make_piece_cid(b"none")),
                            size: a.map(|a| a.size).unwrap_or(PaddedPieceSize(min_size)),
                        };
                        match rng.weighted(&[85, 5, 5, 5]) {
                            1 => c.size = PaddedPieceSize(c.size.0 * 2),
                            2 => c.data = make_piece_cid(b"other"),
                            3 => c.client = clients[rng.below(3) as usize].id().unwrap(),
                            _ => {}
                        }
                        claims.push(c);
                    }
                    if rng.chance(1, 8) {
                        let d = claims[0].clone();
                        claims.push(d);
                    }
                    let tmin = claims.iter().filter_map(|c| prev.allocs.get(&c.allocation_id)).map(|a| a.term_min).max().unwrap_or(policy.minimum_verified_allocation_term);
                    let tmax = claims.iter().filter_map(|c| prev.allocs.get(&c.allocation_id)).map(|a| a.term_max).min().unwrap_or(tmin);
                    let expiry = epoch + match rng.weighted(&[75, 12, 13]) { 0 => rng.range(tmin, tmax.max(tmin)), 1 => tmin - rng.range(1, 5), _ => tmax + rng.range(1, 5) };
                    claim_requests.push((miner, expiry, claims.clone()));
                    sectors.push(SectorAllocationClaims { sector: 10 + s, expiry, claims });
                }
                let aon = rng.chance(1, 2);
                let (r, inv) = call(&v, &miner, &VR, &TokenAmount::zero(), VerifregMethod::ClaimAllocations as u64, Some(&ClaimAllocationsParams { sectors, all_or_nothing: aon }));
                (format!("ClaimAllocations from {miner} {:?} all_or_nothing={aon} -> {}", claim_requests.iter().map(|c| (c.1, c.2.iter().map(|x| x.allocation_id).collect::<Vec<_>>())).collect::<Vec<_>>(), r.code), r, inv)
            }
            4 => {
                let client = *rng.pick(&clients);
                let mine: Vec<u64> = prev.allocs.iter().filter(|(_, a)| a.client == client.id().unwrap()).map(|(i, _)| *i).collect();
                let ids: Vec<u64> = match rng.weighted(&[40, 40, 20]) {
                    0 => vec![],
                    1 => rng.subset(&mine, 2, 3),
                    _ => {
                        let mut x = rng.subset(&open, 1, 2);
                        if let Some(f) = x.first().cloned() {
                            x.push(f);
                        }
                        x
                    }
                };
                let (r, inv) = call(&v, &stranger, &VR, &TokenAmount::zero(), VerifregMethod::RemoveExpiredAllocations as u64, Some(&RemoveExpiredAllocationsParams { client: client.id().unwrap(), allocation_ids: ids.clone() }));
                (format!("RemoveExpiredAllocations(client {client}, {:?}) -> {} {}", ids, r.code, &r.message[..r.message.len().min(40)]), r, inv)
            }
            5 => {
                if claim_ids.is_empty() {
                    continue;
                }
                let cid = *rng.pick(&claim_ids);
                let c = &prev.claims[&cid];
                let caller = if rng.chance(3, 4) { Address::new_id(c.client) } else { stranger };
                let tm = c.term_max + rng.range(-3, 100 * DAY);
                let (r, inv) = call(&v, &caller, &VR, &TokenAmount::zero(), VerifregMethod::ExtendClaimTerms as u64, Some(&ExtendClaimTermsParams { terms: vec![ClaimTerm { provider: c.provider, claim_id: cid, term_max: tm }] }));
                (format!("ExtendClaimTerms(claim {cid}, term_max {} -> {tm}) by {caller} -> {}", c.term_max, r.code), r, inv)
            }
            6 => {
                let p = rng.pick(&miners).id().unwrap();
                let mine: Vec<u64> = prev.claims.iter().filter(|(_, c)| c.provider == p).map(|(i, _)| *i).collect();
                let ids = if rng.chance(1, 2) { vec![] } else { rng.subset(&mine, 1, 2) };
                let (r, inv) = call(&v, &stranger, &VR, &TokenAmount::zero(), VerifregMethod::RemoveExpiredClaims as u64, Some(&RemoveExpiredClaimsParams { provider: p, claim_ids: ids.clone() }));
                (format!("RemoveExpiredClaims(provider {p}, {:?}) -> {}", ids, r.code), r, inv)
            }
            7 => {
                // direct token calls that must not change supply unless they are burns
                let holder = *rng.pick(&clients);
                let amt = whole(rng.below(3) * min_size);
                match rng.below(3) {
                    0 => {
                        let (r, inv) = burn_datacap(&v, &holder, &amt);
                        (format!("Burn {amt} by {holder} -> {}", r.code), r, inv)
                    }
                    1 => {
                        let p = fil_actor_datacap::MintParams { to: holder, amount: amt.clone(), operators: vec![] };
                        let (r, inv) = call(&v, &stranger, &DC, &TokenAmount::zero(), fil_actor_datacap::Method::MintExported as u64, Some(&p));
                        (format!("Mint by stranger -> {}", r.code), r, inv)
                    }
                    _ => {
                        let p = frc46_token::token::types::TransferParams { to: clients[0], amount: amt.clone(), operator_data: RawBytes::default() };
                        let (r, inv) = call(&v, &holder, &DC, &TokenAmount::zero(), fil_actor_datacap::Method::TransferExported as u64, Some(&p));
                        (format!("Transfer {amt} {holder} -> client (not registry) -> {}", r.code), r, inv)
                    }
                }
            }
            8 => {
                // RemoveVerifiedClientDataCap through the root, signed by two verifiers
                let client = *rng.pick(&clients);
                let amount = BigInt::from((1 + rng.below(4)) * min_size);
                let (v1, v2) = if rng.chance(5, 6) { (verifiers[0], verifiers[1]) } else { (verifiers[0], verifiers[0]) };
                let mut mk = |ver: Address, good: bool| {
                    let id = *removal_ids.get(&(ver, client)).unwrap_or(&0);
                    let prop = RemoveDataCapProposal { verified_client: client, data_cap_amount: amount.clone(), removal_proposal_id: RemoveDataCapProposalID { id: if good { id } else { id + 7 } } };
                    let mut payload = SIGNATURE_DOMAIN_SEPARATION_REMOVE_DATA_CAP.to_vec();
                    payload.extend_from_slice(RawBytes::serialize(&prop).unwrap().bytes());
                    RemoveDataCapRequest { verifier: ver, signature: Signature { sig_type: SignatureType::BLS, bytes: sign(&keys[&ver], &payload) } }
                };
                let good = rng.chance(4, 5);
                let p = RemoveDataCapParams { verified_client_to_remove: client, data_cap_amount_to_remove: amount.clone(), verifier_request_1: mk(v1, true), verifier_request_2: mk(v2, good) };
                let (r, inv, ok) = via_root(&v, VerifregMethod::RemoveVerifiedClientDataCap, &p);
                if ok {
                    *removal_ids.entry((v1, client)).or_insert(0) += 1;
                    *removal_ids.entry((v2, client)).or_insert(0) += 1;
                }
                (format!("root RemoveVerifiedClientDataCap({client}, {amount}) -> {} inner_ok={ok}", r.code), r, inv)
            }
            _ => {
                let d = match rng.weighted(&[45, 25, 25, 5]) {
                    0 => rng.range(1, 100),
                    1 => rng.range(1, 60) * DAY,
                    2 => {
                        // to an allocation's expiration +-1
                        match rng.pick_opt(&open) {
                            Some(i) => (prev.allocs[i].expiration - epoch + rng.range(-1, 1)).max(1),
                            None => 10,
                        }
                    }
                    _ => rng.range(200, 600) * DAY,
                };
                v.set_epoch(epoch + d);
                o.op(format!("{step}: advance {d} -> e{}", epoch + d));
                continue;
            }
        };
        o.op(format!("{step}: e{epoch} {desc}"));
        o.count(if r.code.is_success() { "messages_ok" } else { "messages_rejected" });
        o.hash_mix(((kind as u64) << 1) | r.code.is_success() as u64);
        if r.message.starts_with("PANIC") {
            o.count("actor_panics_on_user_input");
            o.seen("actor_panics", format!("{}", &desc[..desc.len().min(40)]));
            v.panics.borrow_mut().clear();
        }
        let after = snap_vr(&v);
        o.count("ledger_checks");
        // ---- token conservation
        if let (Some(inv), true) = (&inv, r.code.is_success()) {
            let (m, b) = mint_burn_in(inv);
            minted += m;
            burnt += b;
        }
        let sum: TokenAmount = after.balances.values().cloned().sum();
        if after.supply != sum {
            o.violate("supply_eq_balances", "C09/supply_ne_sum_of_balances", format!("step {step}: supply {} but balances sum to {sum}", after.supply));
        }
        if after.supply != &minted - &burnt {
            o.violate("supply_eq_minted_minus_burnt", "C09/supply_ne_minted_minus_burnt", format!("step {step}: supply {} but observed mints {minted} - burns {burnt} = {}", after.supply, &minted - &burnt));
        }
        // ---- registry balance == unclaimed allocations
        let unclaimed: u64 = after.allocs.values().map(|a| a.size.0).sum();
        if after.bal(VERIFIED_REGISTRY_ACTOR_ID) != whole(unclaimed) {
            o.violate("registry_balance", "C09/registry_balance_ne_unclaimed_allocations", format!("step {step}: registry holds {} DataCap but unclaimed allocations total {}", after.bal(VERIFIED_REGISTRY_ACTOR_ID), whole(unclaimed)));
        }
        // ---- verifier caps
        for (ver, cap) in &prev.verifiers {
            let now = after.verifiers.get(ver).cloned();
            if now.as_ref() != Some(cap) {
                // allowed: a grant by this verifier in this message, or a root AddVerifier/RemoveVerifier
                let granted = if kind == 1 && r.code.is_success() {
                    inv.as_ref().and_then(|i| i.params.as_ref()).and_then(|p| p.deserialize::<AddVerifiedClientParams>().ok()).filter(|_| inv.as_ref().map(|i| Address::new_id(i.from)) == Some(*ver))
                } else {
                    None
                };
                match (granted, now) {
                    (Some(g), Some(n)) => {
                        o.count("grants_checked");
                        if n != cap - &g.allowance {
                            o.violate("verifier_cap", "C09/verifier_cap_delta_ne_grant", format!("step {step}: verifier {ver} cap {cap} -> {n} after granting {}", g.allowance));
                        }
                        let cid = v.resolve_id_address(&g.address).unwrap().id().unwrap();
                        if after.bal(cid) - prev.bal(cid) != TokenAmount::from_whole(g.allowance.clone()) {
                            o.violate("verifier_cap", "C09/client_balance_delta_ne_grant", format!("step {step}: client {cid} balance changed by {} after a grant of {}", after.bal(cid) - prev.bal(cid), g.allowance));
                        }
                    }
                    _ => {
                        if kind != 0 {
                            o.violate("verifier_cap", "C09/verifier_cap_changed_without_grant", format!("step {step}: verifier {ver} cap {cap} -> {:?} in a message that is neither its grant nor a root call", after.verifiers.get(ver)));
                        }
                    }
                }
            }
        }
        // ---- allocation automaton
        if after.next_id < prev.next_id {
            o.violate("ids_increasing", "C09/next_allocation_id_decreased", format!("step {step}: {} -> {}", prev.next_id, after.next_id));
        }
        for (id, a) in &after.allocs {
            if !prev.allocs.contains_key(id) {
                o.count("allocations_created");
                if *id < prev.next_id || fate.contains_key(id) {
                    o.violate("ids_increasing", "C09/allocation_id_reused", format!("step {step}: allocation id {id} appeared, next id was {}", prev.next_id));
                }
                fate.insert(*id, AllocFate::Open);
                alloc_rec.insert(*id, a.clone());
            }
        }
        // which allocations were named by a successful claim call of this message
        let mut claimed_now: BTreeSet<u64> = BTreeSet::new();
        if kind == 3
            && r.code.is_success()
            && let Some(cr) = ret::<ClaimAllocationsReturn>(&r)
        {
            for (si, (miner, expiry, claims)) in claim_requests.iter().enumerate() {
                let ok = !cr.sector_results.fail_codes.iter().any(|f| f.idx as usize == si);
                if !ok {
                    continue;
                }
                for c in claims {
                    claimed_now.insert(c.allocation_id);
                    if let Some(a) = prev.allocs.get(&c.allocation_id) {
                        let life = expiry - epoch;
                        let good = a.provider == miner.id().unwrap() && a.client == c.client && a.data == c.data && a.size == c.size && epoch <= a.expiration && life >= a.term_min && life <= a.term_max;
                        if !good {
                            o.violate("claim_conditions", "C09/claim_accepted_against_terms", format!("step {step}: allocation {} ({:?}) claimed by {miner} as {:?} at epoch {epoch} with sector expiry {expiry}", c.allocation_id, a, c));
                        }
                    } else {
                        o.violate("claim_conditions", "C09/claim_of_missing_allocation", format!("step {step}: claim of allocation {} succeeded but it did not exist", c.allocation_id));
                    }
                }
            }
        }
        let mut refunds: BTreeMap<u64, u64> = BTreeMap::new();
        for (id, a) in &prev.allocs {
            if after.allocs.contains_key(id) {
                continue;
            }
            terminal += 1;
            let f = fate.get(id).cloned().unwrap_or(AllocFate::Open);
            if f != AllocFate::Open {
                o.violate("one_terminal", "C09/allocation_finished_twice", format!("step {step}: allocation {id} finished again (was {:?})", f));
            }
            if let Some(c) = after.claims.get(id).filter(|_| !prev.claims.contains_key(id)) {
                o.count("allocations_claimed");
                fate.insert(*id, AllocFate::Claimed);
                if !claimed_now.contains(id) {
                    o.violate("one_terminal", "C09/claimed_without_claim_call", format!("step {step}: allocation {id} turned into a claim in a message that did not claim it"));
                }
                if c.provider != a.provider || c.client != a.client || c.data != a.data || c.size != a.size || c.term_start != epoch {
                    o.violate("claim_conditions", "C09/claim_record_ne_allocation", format!("step {step}: claim {id} {:?} does not reproduce allocation {:?}", c, a));
                }
                claim_term_max.insert(*id, c.term_max);
            } else {
                o.count("allocations_refunded");
                fate.insert(*id, AllocFate::Refunded);
                if epoch < a.expiration {
                    o.violate("refund_after_expiry", "C09/allocation_removed_before_expiration", format!("step {step}: allocation {id} (expiration {}) removed at epoch {epoch} without a claim", a.expiration));
                }
                *refunds.entry(a.client).or_insert(0) += a.size.0;
            }
        }
        for (client, sz) in &refunds {
            let got = after.bal(*client) - prev.bal(*client);
            if got != whole(*sz) {
                o.violate("refund_to_client", "C09/refund_ne_allocation_size", format!("step {step}: client {client} balance changed by {got} but its expired allocations total {}", whole(*sz)));
            }
        }
        // a claimed or refunded id never comes back
        for id in after.allocs.keys() {
            if matches!(fate.get(id), Some(AllocFate::Claimed) | Some(AllocFate::Refunded)) {
                o.violate("one_terminal", "C09/finished_allocation_reopened", format!("step {step}: allocation {id} is open again"));
            }
        }
        // burn on claim: supply falls by the claimed sizes (checked through minted-burnt above); claims' term_max never decreases
        for (id, c) in &after.claims {
            if let Some(pc) = prev.claims.get(id)
                && c.term_max < pc.term_max
            {
                o.violate("term_max_monotone", "C10/claim_term_max_decreased", format!("step {step}: claim {id} term_max {} -> {}", pc.term_max, c.term_max));
            }
        }
        for (id, c) in &prev.claims {
            if !after.claims.contains_key(id) && epoch < c.term_start + c.term_max {
                o.violate("claim_removed_after_expiry", "C10/claim_removed_before_expiry", format!("step {step}: claim {id} (expires {}) removed at epoch {epoch}", c.term_start + c.term_max));
            }
        }
        prev = after;
    }
    o.add("allocations_finished", terminal);
    o.nontrivial = terminal >= 2 && o.counters.get("allocations_created").copied().unwrap_or(0) >= 3;
    let _ = alloc_rec;
    o
}

pub fn run_focus(cfg: &Cfg, focus: &'static str) -> Agg {
    let mut agg = Agg::new(cfg);
    let tier = cfg.tier;
    let prefix = format!("{focus}/");
    agg.run_parallel("datacap", tier.pick(2400, 40000), Duration::from_secs(tier.pick(200, 1500)), |i, rng| {
        let mut o = history(i, rng, tier);
        o.violations.retain(|x| x.signature.starts_with(&prefix));
        o
    });
    agg
}

pub fn run(cfg: &Cfg) -> i32 {
    let tier = cfg.tier;
    run_focus(cfg, "C09").finish(
        "exploration",
        "one history = 2 real miners, 2 verifiers, 3 clients and 70-110 messages: AddVerifier / RemoveVerifier / RemoveVerifiedClientDataCap through the root multisig (good and bad signatures, same verifier twice), AddVerifiedClient by verifiers and non-verifiers with amounts up to and above the cap, DataCap Transfer / TransferFrom (market as operator) to the registry carrying allocation and claim-extension requests with exact, short and surplus amounts, ClaimAllocations sent from miner actors with valid / foreign / mismatched / repeated / expired entries under both all_or_nothing values and sector expiries around term_min / term_max, RemoveExpiredAllocations / RemoveExpiredClaims with empty, own, foreign and repeated id lists, ExtendClaimTerms, direct Burn / Mint / client-to-client Transfer, epoch advances to allocation expirations +-1 and beyond claim terms; non-trivial = at least 3 allocations created and 2 finished; distinct by hash of (op kind, outcome) sequence",
        tier.pick(50, 500),
        &["ClaimAllocations is sent from the miner actors' addresses directly (the full sealing path is exercised in C10)", "harness signature scheme"],
        serde_json::json!({}),
    )
}
