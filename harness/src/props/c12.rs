//! C12 — multisig: spending needs a quorum of current signers, once, within the lock.
//! Reference model driven only by observed successful calls; every send that leaves a wallet is
//! judged against the model *at that instant* by walking the invocation tree in execution order
//! (which is what makes re-entrant self-calls decidable).
use crate::framework::*;
use crate::mvm::{Inv, Mvm};
use crate::rng::Rng;
use crate::world::*;
use fil_actor_multisig::{
    AddSignerParams, ChangeNumApprovalsThresholdParams, ConstructorParams, LockBalanceParams,
    Method, PendingTxnMap, ProposeParams, ProposeReturn, RemoveSignerParams, State,
    SwapSignerParams, Transaction, TxnID, TxnIDParams, compute_proposal_hash,
};
use fil_actors_runtime::runtime::Policy;
use fil_actors_runtime::test_utils::MULTISIG_ACTOR_CODE_ID;
use fil_actors_runtime::{DEFAULT_HAMT_CONFIG, INIT_ACTOR_ADDR};
use fvm_ipld_encoding::RawBytes;
use fvm_shared::address::Address;
use fvm_shared::bigint::{BigInt, Integer, Zero};
use fvm_shared::clock::ChainEpoch;
use fvm_shared::econ::TokenAmount;
use fvm_shared::{ActorID, METHOD_SEND, MethodNum};
use std::collections::BTreeMap;
use std::time::Duration;
use vm_api::VM;

#[derive(Clone, Debug, PartialEq)]
struct MTx {
    to: Address,
    value: TokenAmount,
    method: MethodNum,
    params: Vec<u8>,
    approved: Vec<Address>,
}

#[derive(Clone, Debug)]
struct Wallet {
    id: ActorID,
    signers: Vec<Address>,
    threshold: u64,
    pending: BTreeMap<i64, MTx>,
    lock_amount: TokenAmount,
    lock_start: ChainEpoch,
    lock_duration: ChainEpoch,
    executed: u64,
}

impl Wallet {
    fn locked_at(&self, epoch: ChainEpoch) -> TokenAmount {
        // independent computation: linear vesting, rounded up in favour of the lock
        let elapsed = epoch - self.lock_start;
        if self.lock_duration == 0 || elapsed >= self.lock_duration {
            return TokenAmount::zero();
        }
        if elapsed <= 0 {
            return self.lock_amount.clone();
        }
        let num: BigInt = self.lock_amount.atto() * BigInt::from(self.lock_duration - elapsed);
        let den = BigInt::from(self.lock_duration);
        let (q, r) = num.div_rem(&den);
        TokenAmount::from_atto(if r.is_zero() { q } else { q + 1 })
    }
    fn purge(&mut self, who: &Address) {
        let mut gone = vec![];
        for (id, t) in self.pending.iter_mut() {
            if t.approved.contains(who) {
                t.approved.retain(|a| a != who);
                if t.approved.is_empty() {
                    gone.push(*id);
                }
            }
        }
        for g in gone {
            self.pending.remove(&g);
        }
    }
}

struct Models {
    w: BTreeMap<ActorID, Wallet>,
}

fn read_pending(v: &Mvm, st: &State) -> BTreeMap<i64, MTx> {
    let ptx = PendingTxnMap::load(v.store.as_ref(), &st.pending_txs, DEFAULT_HAMT_CONFIG, "pending").unwrap();
    let mut m = BTreeMap::new();
    ptx.for_each(|k: TxnID, t: &Transaction| {
        m.insert(
            k.0,
            MTx { to: t.to, value: t.value.clone(), method: t.method, params: t.params.to_vec(), approved: t.approved.clone() },
        );
        Ok(())
    })
    .unwrap();
    m
}

/// Walk one top-level invocation tree in execution order, updating the models and judging sends.
fn observe(v: &Mvm, ms: &mut Models, inv: &Inv, anc_ok: bool, parent_tx: Option<(ActorID, i64)>, epoch: ChainEpoch, o: &mut Outcome) {
    if !anc_ok {
        return;
    }
    // 1. a send leaving a wallet
    if let Some(w) = ms.w.get_mut(&inv.from) {
        o.count("wallet_outgoing_sends_seen");
        let is_resolution = inv.method == METHOD_SEND && inv.value.is_zero();
        match parent_tx {
            Some((wid, txid)) if wid == inv.from => {
                // must be the execution of tx `txid`
                match w.pending.get(&txid).cloned() {
                    None => {
                        if !is_resolution {
                            o.violate("send_matches_pending", "C12/send_without_pending_tx",
                                format!("wallet {} sent (to {}, value {}, method {}) for tx {} which is not pending in the model (already executed or never proposed)", inv.from, inv.to, inv.value, inv.method, txid));
                        }
                    }
                    Some(t) => {
                        let to_ok = v.resolve_id_address(&t.to).unwrap_or(t.to) == inv.to || t.to == inv.to;
                        let same = to_ok && t.value == inv.value && t.method == inv.method
                            && t.params == inv.params.as_ref().map(|p| p.data.clone()).unwrap_or_default();
                        if !same {
                            if !is_resolution {
                                o.violate("send_matches_pending", "C12/send_differs_from_proposal",
                                    format!("wallet {} executed tx {} as (to {}, value {}, method {}) but the approved proposal was (to {}, value {}, method {})", inv.from, txid, inv.to, inv.value, inv.method, t.to, t.value, t.method));
                            }
                        } else {
                            o.count("executions_checked");
                            let mut distinct: Vec<&Address> = vec![];
                            for a in &t.approved {
                                if w.signers.contains(a) && !distinct.contains(&a) {
                                    distinct.push(a);
                                }
                            }
                            if (distinct.len() as u64) < w.threshold {
                                o.violate("quorum", "C12/executed_below_threshold",
                                    format!("wallet {} executed tx {} with {} approvals of current signers (approved {:?}, signers {:?}) but threshold is {}", inv.from, txid, distinct.len(), t.approved, w.signers, w.threshold));
                            }
                            w.pending.remove(&txid);
                            w.executed += 1;
                            if inv.ok() && inv.value.is_positive() {
                                let after = &inv.from_bal_pre - &inv.value;
                                let locked = w.locked_at(epoch);
                                o.count("lock_checks");
                                if after < locked {
                                    o.violate("lock", "C12/spent_locked_funds",
                                        format!("wallet {} at epoch {} sent {} leaving {} but {} is still locked (lock {} from {} over {})", inv.from, epoch, inv.value, after, locked, w.lock_amount, w.lock_start, w.lock_duration));
                                }
                            }
                        }
                    }
                }
            }
            _ => {
                if !is_resolution {
                    o.violate("send_matches_pending", "C12/send_outside_execution",
                        format!("wallet {} sent (to {}, value {}, method {}) outside any Propose/Approve", inv.from, inv.to, inv.value, inv.method));
                }
            }
        }
    }
    // 2. a call into a wallet
    let mut child_tx: Option<(ActorID, i64)> = None;
    let to_id = inv.to.id().unwrap_or(u64::MAX);
    if inv.ok() && ms.w.contains_key(&to_id) {
        let caller = Address::new_id(inv.from);
        let w = ms.w.get_mut(&to_id).unwrap();
        let self_call = inv.from == to_id;
        let p = inv.params.as_ref();
        match inv.method {
            x if x == Method::Propose as u64 => {
                o.count("propose_ok");
                if !w.signers.contains(&caller) {
                    o.violate("only_signers", "C12/propose_by_non_signer", format!("Propose on wallet {to_id} by non-signer {caller} succeeded"));
                }
                let pp: ProposeParams = p.unwrap().deserialize().unwrap();
                let pr: ProposeReturn = inv.ret.as_ref().unwrap().deserialize().unwrap();
                w.pending.insert(pr.txn_id.0, MTx { to: pp.to, value: pp.value, method: pp.method, params: pp.params.to_vec(), approved: vec![caller] });
                child_tx = Some((to_id, pr.txn_id.0));
            }
            x if x == Method::Approve as u64 => {
                o.count("approve_ok");
                if !w.signers.contains(&caller) {
                    o.violate("only_signers", "C12/approve_by_non_signer", format!("Approve on wallet {to_id} by non-signer {caller} succeeded"));
                }
                let tp: TxnIDParams = p.unwrap().deserialize().unwrap();
                if let Some(t) = w.pending.get_mut(&tp.id.0) {
                    let met: u64 = t.approved.iter().filter(|a| w.signers.contains(a)).count() as u64;
                    if met < w.threshold && !t.approved.contains(&caller) {
                        t.approved.push(caller);
                    }
                } else {
                    o.violate("send_matches_pending", "C12/approve_unknown_tx", format!("Approve of tx {} on wallet {to_id} succeeded but the model has no such pending tx", tp.id.0));
                }
                child_tx = Some((to_id, tp.id.0));
            }
            x if x == Method::Cancel as u64 => {
                o.count("cancel_ok");
                let tp: TxnIDParams = p.unwrap().deserialize().unwrap();
                match w.pending.get(&tp.id.0) {
                    Some(t) => {
                        if t.approved.first() != Some(&caller) || !w.signers.contains(&caller) {
                            o.violate("cancel_rights", "C12/cancel_by_other", format!("Cancel of tx {} on wallet {to_id} by {caller} succeeded; earliest remaining approver is {:?}", tp.id.0, t.approved.first()));
                        }
                        w.pending.remove(&tp.id.0);
                    }
                    None => o.violate("cancel_rights", "C12/cancel_unknown_tx", format!("Cancel of unknown tx {} succeeded", tp.id.0)),
                }
            }
            x if x == Method::AddSigner as u64 => {
                o.count("add_signer_ok");
                if !self_call {
                    o.violate("self_only", "C12/config_change_by_other:AddSigner", format!("AddSigner on {to_id} by {caller} succeeded"));
                }
                let ap: AddSignerParams = p.unwrap().deserialize().unwrap();
                let s = v.resolve_id_address(&ap.signer).unwrap_or(ap.signer);
                w.signers.push(s);
                if ap.increase {
                    w.threshold += 1;
                }
            }
            x if x == Method::RemoveSigner as u64 => {
                o.count("remove_signer_ok");
                if !self_call {
                    o.violate("self_only", "C12/config_change_by_other:RemoveSigner", format!("RemoveSigner on {to_id} by {caller} succeeded"));
                }
                let rp: RemoveSignerParams = p.unwrap().deserialize().unwrap();
                let s = v.resolve_id_address(&rp.signer).unwrap_or(rp.signer);
                w.signers.retain(|x| *x != s);
                if rp.decrease {
                    w.threshold = w.threshold.saturating_sub(1);
                }
                w.purge(&s);
            }
            x if x == Method::SwapSigner as u64 => {
                o.count("swap_signer_ok");
                if !self_call {
                    o.violate("self_only", "C12/config_change_by_other:SwapSigner", format!("SwapSigner on {to_id} by {caller} succeeded"));
                }
                let sp: SwapSignerParams = p.unwrap().deserialize().unwrap();
                let f = v.resolve_id_address(&sp.from).unwrap_or(sp.from);
                let t = v.resolve_id_address(&sp.to).unwrap_or(sp.to);
                w.signers.retain(|x| *x != f);
                w.signers.push(t);
                w.purge(&f);
            }
            x if x == Method::ChangeNumApprovalsThreshold as u64 => {
                o.count("change_threshold_ok");
                if !self_call {
                    o.violate("self_only", "C12/config_change_by_other:ChangeThreshold", format!("ChangeNumApprovalsThreshold on {to_id} by {caller} succeeded"));
                }
                let cp: ChangeNumApprovalsThresholdParams = p.unwrap().deserialize().unwrap();
                w.threshold = cp.new_threshold;
            }
            x if x == Method::LockBalance as u64 => {
                o.count("lock_balance_ok");
                if !self_call {
                    o.violate("self_only", "C12/config_change_by_other:LockBalance", format!("LockBalance on {to_id} by {caller} succeeded"));
                }
                let lp: LockBalanceParams = p.unwrap().deserialize().unwrap();
                if w.lock_duration != 0 {
                    o.violate("lock", "C12/lock_modified", format!("LockBalance on {to_id} succeeded although a lock-up already exists"));
                }
                w.lock_amount = lp.amount;
                w.lock_start = lp.start_epoch;
                w.lock_duration = lp.unlock_duration;
            }
            _ => {}
        }
        let w = &ms.w[&to_id];
        if w.threshold < 1 || w.threshold > w.signers.len() as u64 || w.signers.len() > 256 {
            o.violate("bounds", "C12/threshold_bounds", format!("wallet {to_id}: threshold {} signers {}", w.threshold, w.signers.len()));
        }
    }
    let ok = inv.ok();
    for s in &inv.subs {
        observe(v, ms, s, ok, child_tx.or(if ok && inv.from == to_id { None } else { None }), epoch, o);
    }
}

fn compare_state(v: &Mvm, ms: &mut Models, o: &mut Outcome, when: &str) {
    for (id, w) in ms.w.iter_mut() {
        let Some(st) = state::<State>(v, &Address::new_id(*id)) else {
            o.violate("state", "C12/state_missing", format!("wallet {id} state unreadable"));
            continue;
        };
        o.count("state_comparisons");
        let mut a = st.signers.clone();
        let mut b = w.signers.clone();
        a.sort();
        b.sort();
        if a != b || st.num_approvals_threshold != w.threshold {
            o.violate("config_changes_only_via_self", "C12/config_diverged",
                format!("{when}: wallet {id} has signers {:?} threshold {} but the observed successful self-calls give signers {:?} threshold {}", st.signers, st.num_approvals_threshold, w.signers, w.threshold));
            w.signers = st.signers.clone();
            w.threshold = st.num_approvals_threshold;
        }
        if st.num_approvals_threshold < 1 || st.num_approvals_threshold > st.signers.len() as u64 || st.signers.len() > 256 {
            o.violate("bounds", "C12/threshold_bounds", format!("{when}: wallet {id}: threshold {} signers {}", st.num_approvals_threshold, st.signers.len()));
        }
        if st.initial_balance != w.lock_amount || st.start_epoch != w.lock_start || st.unlock_duration != w.lock_duration {
            o.violate("lock", "C12/lock_diverged", format!("{when}: wallet {id} lock ({}, {}, {}) but model ({}, {}, {})", st.initial_balance, st.start_epoch, st.unlock_duration, w.lock_amount, w.lock_start, w.lock_duration));
            w.lock_amount = st.initial_balance.clone();
            w.lock_start = st.start_epoch;
            w.lock_duration = st.unlock_duration;
        }
        let mut sp = read_pending(v, &st);
        sp.retain(|_, t| !t.approved.is_empty());
        let mut mp = w.pending.clone();
        mp.retain(|_, t| !t.approved.is_empty());
        // approvals by non-signers must not be stored (they "do not count")
        for (tid, t) in &sp {
            for a in &t.approved {
                if !st.signers.contains(a) {
                    o.violate("stale_approval", "C12/approval_of_non_signer_kept", format!("{when}: wallet {id} tx {tid} still carries the approval of {a}, who is not a signer"));
                }
            }
        }
        if sp != mp {
            o.violate("pending_agreement", "C12/pending_diverged", format!("{when}: wallet {id} pending {:?} but model {:?}", sp, mp));
            w.pending = sp;
        }
    }
}

pub fn history(index: u64, mut rng: Rng, tier: Tier) -> Outcome {
    let mut o = Outcome::default();
    let v = genesis(Policy::default());
    let accts = make_accounts(&v, 7, 7000 + index, &fil(100_000));
    let outsiders = [accts[5], accts[6]];
    let mut ms = Models { w: BTreeMap::new() };
    let nw = 2 + rng.below(2) as usize;
    let mut wallets: Vec<Address> = vec![];
    v.set_epoch(rng.range(0, 50));
    for k in 0..nw {
        let ns = 1 + rng.below(4) as usize;
        let mut signers: Vec<Address> = accts[..5].to_vec();
        rng.shuffle(&mut signers);
        signers.truncate(ns);
        // nested multisig: an earlier wallet may be a signer
        if k > 0 && rng.chance(1, 2) {
            signers.push(wallets[rng.below(k as u64) as usize]);
        }
        // one history in eight has a wallet at (or just below) the signer limit of 256
        let full = k == 0 && index % 8 == 3;
        if full {
            let target = 254 + rng.below(3) as usize;
            let mut j = 0u64;
            while signers.len() < target {
                let mut key = [0u8; 65];
                key[..8].copy_from_slice(&(index * 1000 + j).to_be_bytes());
                key[64] = 1;
                signers.push(Address::new_secp256k1(&key).unwrap());
                j += 1;
            }
            o.count("wallets_at_signer_limit");
        }
        let threshold = if full { 1 } else { 1 + rng.below(signers.len() as u64) };
        let (dur, start) = if rng.chance(1, 2) { (rng.range(50, 400), v.epoch() + rng.range(-20, 40)) } else { (0, 0) };
        let funding = atto(1_000_000_000 + rng.below(1_000_000_000));
        let cp = ConstructorParams { signers: signers.clone(), num_approvals_threshold: threshold, unlock_duration: dur, start_epoch: start };
        let (r, _) = call(&v, &accts[0], &INIT_ACTOR_ADDR, &funding, fil_actor_init::Method::Exec as u64,
            Some(&fil_actor_init::ExecParams { code_cid: *MULTISIG_ACTOR_CODE_ID, constructor_params: RawBytes::serialize(&cp).unwrap() }));
        let er: fil_actor_init::ExecReturn = ret(&r).expect("msig create");
        let st: State = state(&v, &er.id_address).unwrap();
        o.op(format!("create wallet {} signers={:?} threshold={} lock=({} from {} over {})", er.id_address, st.signers, threshold, st.initial_balance, st.start_epoch, st.unlock_duration));
        ms.w.insert(er.id_address.id().unwrap(), Wallet {
            id: er.id_address.id().unwrap(),
            signers: st.signers.clone(),
            threshold,
            pending: BTreeMap::new(),
            lock_amount: st.initial_balance.clone(),
            lock_start: st.start_epoch,
            lock_duration: st.unlock_duration,
            executed: 0,
        });
        wallets.push(er.id_address);
    }
    // make the first wallet its own signer sometimes (re-entrant shapes), via a real proposal
    let nops = tier.pick(60, 90);
    let mut value_ctr: u64 = 10_000;
    // address form: the ID address or (for accounts) the key address that resolves to it
    let key_form: BTreeMap<Address, Address> = accts.iter().map(|a| (*a, key_of(&v, a))).collect();
    let form = |rng: &mut Rng, a: Address| -> Address {
        match key_form.get(&a) {
            Some(k) if rng.chance(1, 3) => *k,
            _ => a,
        }
    };
    let mut successes = 0u64;
    for step in 0..nops {
        let wa = *rng.pick(&wallets);
        let wid = wa.id().unwrap();
        let wm = ms.w[&wid].clone();
        let epoch = v.epoch();
        let mut callers: Vec<Address> = wm.signers.iter().filter(|a| !wallets.contains(a)).cloned().collect();
        if callers.is_empty() {
            callers.push(accts[0]);
        }
        let pick_caller = |rng: &mut Rng| -> Address {
            if rng.chance(85, 100) { *rng.pick(&callers) } else if rng.chance(1, 2) { *rng.pick(&outsiders) } else { *rng.pick(&accts[..5]) }
        };
        let kind = rng.weighted(&[38, 30, 8, 6, 10, 8]);
        let (r, inv, desc) = match kind {
            0 => {
                // propose
                let caller = pick_caller(&mut rng);
                value_ctr += 1 + rng.below(1000);
                let sel = rng.weighted(&[30, 8, 8, 8, 8, 6, 10, 10, 6, 6]);
                let mk = |m: Method, p: RawBytes| (wa, TokenAmount::zero(), m as u64, p);
                let (to, value, method, params) = match sel {
                    0 => {
                        let big = rng.chance(15, 100);
                        ({ let a = *rng.pick(&accts); form(&mut rng, a) }, if big { v.balance(&wa) - atto(rng.below(1000)) } else { atto(value_ctr) }, METHOD_SEND, RawBytes::default())
                    }
                    1 => mk(Method::AddSigner, RawBytes::serialize(AddSignerParams { signer: if rng.chance(1, 4) { wa } else { let a = *rng.pick(&accts); form(&mut rng, a) }, increase: rng.chance(1, 2) }).unwrap()),
                    2 => mk(Method::RemoveSigner, RawBytes::serialize(RemoveSignerParams { signer: if wm.signers.is_empty() { accts[0] } else { let a = *rng.pick(&wm.signers); form(&mut rng, a) }, decrease: rng.chance(1, 2) }).unwrap()),
                    3 => mk(Method::SwapSigner, RawBytes::serialize(SwapSignerParams { from: if wm.signers.is_empty() { accts[0] } else { let a = *rng.pick(&wm.signers); form(&mut rng, a) }, to: { let a = *rng.pick(&accts); form(&mut rng, a) } }).unwrap()),
                    4 => mk(Method::ChangeNumApprovalsThreshold, RawBytes::serialize(ChangeNumApprovalsThresholdParams { new_threshold: rng.below(5) }).unwrap()),
                    5 => mk(Method::LockBalance, RawBytes::serialize(LockBalanceParams { start_epoch: epoch + rng.range(-30, 30), unlock_duration: rng.range(-1, 300), amount: atto(rng.below(2_000_000_000)) }).unwrap()),
                    6 => {
                        // call into another (or the same) wallet: Propose a unique send there
                        let other = *rng.pick(&wallets);
                        let inner = ProposeParams { to: *rng.pick(&accts), value: atto(value_ctr), method: METHOD_SEND, params: RawBytes::default() };
                        (other, TokenAmount::zero(), Method::Propose as u64, RawBytes::serialize(inner).unwrap())
                    }
                    7 => {
                        // call into another (or the same) wallet: Approve / Cancel some pending id
                        let other = *rng.pick(&wallets);
                        let om = &ms.w[&other.id().unwrap()];
                        let ids: Vec<i64> = om.pending.keys().cloned().collect();
                        let id = if ids.is_empty() || rng.chance(1, 8) { rng.range(0, 6) } else { *rng.pick(&ids) };
                        let m = if rng.chance(3, 4) { Method::Approve } else { Method::Cancel };
                        (other, TokenAmount::zero(), m as u64, RawBytes::serialize(TxnIDParams { id: TxnID(id), proposal_hash: vec![] }).unwrap())
                    }
                    8 => (*rng.pick(&accts), atto(value_ctr), 5, RawBytes::default()), // failing target method
                    _ => (*rng.pick(&accts), TokenAmount::from_atto(-5), METHOD_SEND, RawBytes::default()),
                };
                let pp = ProposeParams { to, value: value.clone(), method, params };
                let (r, inv) = call(&v, &caller, &wa, &TokenAmount::zero(), Method::Propose as u64, Some(&pp));
                o.hash_mix(0x100 + sel as u64);
                (r, inv, format!("propose by {caller} on {wa}: to={to} value={value} method={method} sel={sel}"))
            }
            1 | 2 => {
                let caller = pick_caller(&mut rng);
                let ids: Vec<i64> = wm.pending.keys().cloned().collect();
                let id = if ids.is_empty() || rng.chance(1, 10) { rng.range(0, 8) } else { *rng.pick(&ids) };
                let hash = match (wm.pending.get(&id), rng.weighted(&[60, 30, 10])) {
                    (Some(t), 1) => {
                        let tx = Transaction { to: t.to, value: t.value.clone(), method: t.method, params: RawBytes::new(t.params.clone()), approved: t.approved.clone() };
                        compute_proposal_hash(&tx, &v.primitives).unwrap().to_vec()
                    }
                    (_, 2) => vec![1, 2, 3],
                    _ => vec![],
                };
                let m = if kind == 1 { Method::Approve } else { Method::Cancel };
                let (r, inv) = call(&v, &caller, &wa, &TokenAmount::zero(), m as u64, Some(&TxnIDParams { id: TxnID(id), proposal_hash: hash }));
                o.hash_mix(0x200 + kind as u64);
                (r, inv, format!("{} by {caller} on {wa} tx {id}", if kind == 1 { "approve" } else { "cancel" }))
            }
            3 => {
                // direct configuration call by a non-wallet caller: must fail
                let caller = pick_caller(&mut rng);
                let (m, p) = match rng.below(5) {
                    0 => (Method::AddSigner, RawBytes::serialize(AddSignerParams { signer: outsiders[0], increase: false }).unwrap()),
                    1 => (Method::RemoveSigner, RawBytes::serialize(RemoveSignerParams { signer: wm.signers[0], decrease: false }).unwrap()),
                    2 => (Method::SwapSigner, RawBytes::serialize(SwapSignerParams { from: wm.signers[0], to: outsiders[1] }).unwrap()),
                    3 => (Method::ChangeNumApprovalsThreshold, RawBytes::serialize(ChangeNumApprovalsThresholdParams { new_threshold: 1 }).unwrap()),
                    _ => (Method::LockBalance, RawBytes::serialize(LockBalanceParams { start_epoch: 0, unlock_duration: 10, amount: atto(1) }).unwrap()),
                };
                let m = m as u64;
                let (r, inv) = v.exec(&caller, &wa, &TokenAmount::zero(), m, Some(fvm_ipld_encoding::ipld_block::IpldBlock { codec: fvm_ipld_encoding::CBOR, data: p.to_vec() }));
                (r, inv, format!("direct config call method {m} by {caller} on {wa}"))
            }
            4 => {
                let d = rng.range(1, 60);
                v.set_epoch(epoch + d);
                o.op(format!("advance {d} -> e{}", epoch + d));
                continue;
            }
            _ => {
                let amt = atto(1 + rng.below(500_000_000));
                let (r, inv) = call0(&v, &accts[0], &wa, &amt, METHOD_SEND);
                (r, inv, format!("fund {wa} with {amt}"))
            }
        };
        o.op(format!("e{epoch} {desc} -> {}", r.code));
        o.count(if r.code.is_success() { "top_level_ok" } else { "top_level_rejected" });
        if r.code.is_success() {
            successes += 1;
        }
        if let Some(inv) = &inv {
            if r.code.is_success() {
                observe(&v, &mut ms, inv, true, None, epoch, &mut o);
            }
            let shape = shape_of(inv, &ms);
            if shape.len() > 1 {
                o.seen("reentrancy_shapes", shape);
            }
        }
        compare_state(&v, &mut ms, &mut o, &format!("step {step}"));
    }
    let executed: u64 = ms.w.values().map(|w| w.executed).sum();
    o.add("transactions_executed", executed);
    o.nontrivial = executed >= 2 && successes >= 8;
    o
}

/// call-shape of wallet activations in a trace, e.g. "W1(W1(W2))" — the "interleavings seen"
fn shape_of(inv: &Inv, ms: &Models) -> String {
    let mut s = String::new();
    let to = inv.to.id().unwrap_or(u64::MAX);
    let is_w = ms.w.contains_key(&to) && inv.method != METHOD_SEND;
    if is_w {
        let ix = ms.w.keys().position(|k| *k == to).unwrap();
        s.push_str(&format!("W{}m{}{}", ix, inv.method, if inv.ok() { "" } else { "!" }));
    }
    let inner: Vec<String> = inv.subs.iter().map(|x| shape_of(x, ms)).filter(|x| !x.is_empty()).collect();
    if !inner.is_empty() {
        if is_w {
            s.push('(');
        }
        s.push_str(&inner.join(","));
        if is_w {
            s.push(')');
        }
    }
    s
}

pub fn run(cfg: &Cfg) -> i32 {
    let mut agg = Agg::new(cfg);
    let tier = cfg.tier;
    let n = tier.pick(1500, 60_000);
    agg.run_parallel("msig", n, Duration::from_secs(tier.pick(120, 1500)), |i, rng| history(i, rng, tier));
    agg.finish(
        "exploration",
        "one history = 2-3 wallets (1-5 signers, nested wallets as signers, optional lock-up) and 60-90 random top-level messages (propose/approve/cancel by signers and outsiders incl. hashes, self-calls AddSigner/RemoveSigner/SwapSigner/ChangeThreshold/LockBalance, proposals that call Propose/Approve/Cancel on the same or another wallet, failing targets, epoch advances); non-trivial = at least 2 executed transactions and 8 successful messages; distinct by hash of op-kind sequence",
        tier.pick(100, 1000),
        &["MVM message semantics equal the FVM's for nested sends and rollback", "approvals are attributed to the immediate caller, as the actor does"],
        serde_json::json!({}),
    )
}
