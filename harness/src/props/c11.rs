//! C11 — privileged methods are callable only by their designated callers.
//! A hand-written specification table (actor, method) -> designated caller classes, executed as an
//! exhaustive (method x caller class) matrix in a fixture world where the designated call succeeds:
//! every cell runs from a restored snapshot; non-designated callers must fail and change nothing.
use crate::evm;
use crate::framework::*;
use crate::market::{self, create_miner, make_proposal, publish, signed};
use crate::mvm::Mvm;
use crate::rng::Rng;
use crate::world::*;
use fil_actor_miner::Method as MinerM;
use fil_actors_runtime::runtime::Policy;
use fil_actors_runtime::runtime::builtins::Type;
use fil_actors_runtime::test_utils::*;
use fil_actors_runtime::*;
use fvm_ipld_bitfield::BitField;
use fvm_ipld_encoding::RawBytes;
use fvm_ipld_encoding::ipld_block::IpldBlock;
use fvm_shared::address::Address;
use fvm_shared::bigint::{BigInt, Zero};
use fvm_shared::econ::TokenAmount;
use fvm_shared::sector::RegisteredPoStProof;
use fvm_shared::{METHOD_SEND, MethodNum};
use std::collections::BTreeMap;
use std::time::Duration;
use vm_api::VM;

/// who may call
#[derive(Clone, Debug, PartialEq)]
pub enum Who {
    /// anybody (for method numbers below 2^24 on restricted-dispatch actors: any built-in actor type, but not EVM contracts)
    Any,
    /// exactly these callers (named actors of the fixture)
    Only(Vec<&'static str>),
    /// any actor of miner type
    MinerType,
    /// any actor of EVM type
    EvmType,
}

/// the live miner of the fixture: sectors in a mutable deadline (`d_far`) and in the open one (`d_open`)
#[derive(Clone, Debug, Default)]
pub struct Live {
    pub d_far: u64,
    pub d_open: u64,
    pub far_sectors: Vec<u64>,
    pub faulty: u64,
    pub precommitted: u64,
    pub expiration: i64,
    pub open_challenge: i64,
}

pub struct Fix {
    pub v: Mvm,
    pub live: Live,
    /// named actors of the fixture world (caller classes and targets)
    pub who: BTreeMap<&'static str, Address>,
    pub deal_id: u64,
    pub claim_id: u64,
    pub alloc_id: u64,
    pub txn_id: i64,
    pub txn3: i64,
    pub keys: BTreeMap<Address, Address>,
}

fn ser<T: serde::Serialize>(t: &T) -> Option<IpldBlock> {
    IpldBlock::serialize_cbor(t).unwrap()
}

pub fn fixture(variant: u64) -> Fix {
    let policy = crate::minerops::miner_policy(1u64 << 30);
    let v = genesis(policy);
    install_sig_scheme(&v);
    v.mut_primitives().override_compute_unsealed_sector_cid(crate::minerops::fake_unsealed_cid_pub);
    v.set_epoch(100 + (variant as i64) * 977);
    let accts = make_accounts(&v, 22, 11_000 + variant, &fil(10_000_000));
    let secp: Vec<Address> = accts.iter().cloned().enumerate().filter(|(i, _)| i % 2 == 0).map(|x| x.1).collect();
    let bls: Vec<Address> = accts.iter().cloned().enumerate().filter(|(i, _)| i % 2 == 1).map(|x| x.1).collect();
    let keys: BTreeMap<Address, Address> = accts.iter().map(|a| (*a, key_of(&v, a))).collect();
    let mut who: BTreeMap<&'static str, Address> = BTreeMap::new();
    for (n, a) in [("system", SYSTEM_ACTOR_ADDR), ("init", INIT_ACTOR_ADDR), ("reward", REWARD_ACTOR_ADDR), ("cron", CRON_ACTOR_ADDR), ("power", STORAGE_POWER_ACTOR_ADDR), ("market", STORAGE_MARKET_ACTOR_ADDR), ("verifreg", VERIFIED_REGISTRY_ACTOR_ADDR), ("datacap", DATACAP_TOKEN_ACTOR_ADDR), ("eam", EAM_ACTOR_ADDR), ("rootmsig", ROOT_MSIG)] {
        who.insert(n, a);
    }
    let (owner, worker, control, beneficiary) = (secp[0], bls[0], secp[1], secp[2]);
    who.insert("owner", owner);
    who.insert("worker", worker);
    who.insert("control", control);
    who.insert("beneficiary", beneficiary);
    who.insert("stranger", secp[3]);
    // target miner M1 with distinct role holders
    let m1 = create_miner(&v, &owner, &worker, RegisteredPoStProof::StackedDRGWindow32GiBV1P1);
    call0(&v, &owner, &m1, &fil(100_000), METHOD_SEND);
    let (r, _) = call(&v, &owner, &m1, &TokenAmount::zero(), MinerM::ChangeWorkerAddress as u64, Some(&fil_actor_miner::ChangeWorkerAddressParams { new_worker: worker, new_control_addresses: vec![control] }));
    assert!(r.code.is_success());
    let bp = fil_actor_miner::ChangeBeneficiaryParams { new_beneficiary: beneficiary, new_quota: fil(1_000_000), new_expiration: 10_000_000 };
    assert!(call(&v, &owner, &m1, &TokenAmount::zero(), MinerM::ChangeBeneficiary as u64, Some(&bp)).0.code.is_success());
    assert!(call(&v, &beneficiary, &m1, &TokenAmount::zero(), MinerM::ChangeBeneficiary as u64, Some(&bp)).0.code.is_success());
    who.insert("miner", m1);
    // another miner (the "miner type" caller class)
    let m2 = create_miner(&v, &secp[4], &bls[1], RegisteredPoStProof::StackedDRGWindow32GiBV1P1);
    who.insert("miner2", m2);
    // multisig with two signers, threshold 2, one pending tx
    let (s1, s2) = (secp[5], bls[2]);
    who.insert("signer1", s1);
    who.insert("signer2", s2);
    let cp = fil_actor_multisig::ConstructorParams { signers: vec![s1, s2], num_approvals_threshold: 2, unlock_duration: 0, start_epoch: 0 };
    let (r, _) = call(&v, &s1, &INIT_ACTOR_ADDR, &fil(100), fil_actor_init::Method::Exec as u64, Some(&fil_actor_init::ExecParams { code_cid: *MULTISIG_ACTOR_CODE_ID, constructor_params: RawBytes::serialize(&cp).unwrap() }));
    let msig = ret::<fil_actor_init::ExecReturn>(&r).unwrap().id_address;
    who.insert("msig", msig);
    let pp = fil_actor_multisig::ProposeParams { to: secp[3], value: atto(5), method: METHOD_SEND, params: RawBytes::default() };
    let (r, _) = call(&v, &s1, &msig, &TokenAmount::zero(), fil_actor_multisig::Method::Propose as u64, Some(&pp));
    let txn_id = ret::<fil_actor_multisig::ProposeReturn>(&r).unwrap().txn_id.0;
    // a 3-of-3 multisig whose pending transaction was proposed by signer1 and approved by signer2
    let s3 = bls[5];
    who.insert("signer3", s3);
    let cp3 = fil_actor_multisig::ConstructorParams { signers: vec![s1, s2, s3], num_approvals_threshold: 3, unlock_duration: 0, start_epoch: 0 };
    let (r, _) = call(&v, &s1, &INIT_ACTOR_ADDR, &fil(100), fil_actor_init::Method::Exec as u64, Some(&fil_actor_init::ExecParams { code_cid: *MULTISIG_ACTOR_CODE_ID, constructor_params: RawBytes::serialize(&cp3).unwrap() }));
    let msig3 = ret::<fil_actor_init::ExecReturn>(&r).unwrap().id_address;
    who.insert("msig3", msig3);
    let (r, _) = call(&v, &s1, &msig3, &TokenAmount::zero(), fil_actor_multisig::Method::Propose as u64, Some(&pp));
    let txn3 = ret::<fil_actor_multisig::ProposeReturn>(&r).unwrap().txn_id.0;
    assert!(call(&v, &s2, &msig3, &TokenAmount::zero(), fil_actor_multisig::Method::Approve as u64, Some(&fil_actor_multisig::TxnIDParams { id: fil_actor_multisig::TxnID(txn3), proposal_hash: vec![] })).0.code.is_success());
    // an unrelated multisig as caller class
    let cp2 = fil_actor_multisig::ConstructorParams { signers: vec![secp[3]], num_approvals_threshold: 1, unlock_duration: 0, start_epoch: 0 };
    let (r, _) = call(&v, &secp[3], &INIT_ACTOR_ADDR, &fil(1), fil_actor_init::Method::Exec as u64, Some(&fil_actor_init::ExecParams { code_cid: *MULTISIG_ACTOR_CODE_ID, constructor_params: RawBytes::serialize(&cp2).unwrap() }));
    who.insert("othermsig", ret::<fil_actor_init::ExecReturn>(&r).unwrap().id_address);
    // payment channel
    let (payer, payee) = (secp[6], bls[3]);
    who.insert("payer", payer);
    who.insert("payee", payee);
    let (r, _) = call(&v, &payer, &INIT_ACTOR_ADDR, &fil(10), fil_actor_init::Method::Exec as u64, Some(&fil_actor_init::ExecParams { code_cid: *PAYCH_ACTOR_CODE_ID, constructor_params: RawBytes::serialize(&fil_actor_paych::ConstructorParams { from: payer, to: payee }).unwrap() }));
    who.insert("paych", ret::<fil_actor_init::ExecReturn>(&r).unwrap().id_address);
    // verifier, client, an allocation and a claim
    let (verifier, client) = (bls[4], secp[7]);
    who.insert("verifier", verifier);
    who.insert("client", client);
    let (_, _, ok) = crate::verif::via_root(&v, fil_actor_verifreg::Method::AddVerifier, &fil_actor_verifreg::VerifierParams { address: verifier, allowance: BigInt::from(1u64 << 40) });
    assert!(ok);
    assert!(call(&v, &verifier, &VERIFIED_REGISTRY_ACTOR_ADDR, &TokenAmount::zero(), fil_actor_verifreg::Method::AddVerifiedClient as u64, Some(&fil_actor_verifreg::AddVerifiedClientParams { address: client, allowance: BigInt::from(1u64 << 30) })).0.code.is_success());
    let mk_req = |tag: &str| fil_actor_verifreg::AllocationRequest { provider: m1.id().unwrap(), data: make_piece_cid(tag.as_bytes()), size: fvm_shared::piece::PaddedPieceSize(1 << 20), term_min: 180 * market::DAY, term_max: 400 * market::DAY, expiration: v.epoch() + 30 * market::DAY };
    let (r, _) = crate::verif::transfer_to_registry(&v, &client, &crate::verif::whole(2 << 20), vec![mk_req("a"), mk_req("b")], vec![]);
    let tr: frc46_token::token::types::TransferReturn = ret(&r).unwrap();
    let ar: fil_actor_verifreg::AllocationsResponse = tr.recipient_data.deserialize().unwrap();
    let (alloc_id, claim_id) = (ar.new_allocations[0], ar.new_allocations[1]);
    let cl = fil_actor_verifreg::ClaimAllocationsParams { sectors: vec![fil_actor_verifreg::SectorAllocationClaims { sector: 7, expiry: v.epoch() + 200 * market::DAY, claims: vec![fil_actor_verifreg::AllocationClaim { client: client.id().unwrap(), allocation_id: claim_id, data: make_piece_cid(b"b"), size: fvm_shared::piece::PaddedPieceSize(1 << 20) }] }], all_or_nothing: true };
    assert!(call(&v, &m1, &VERIFIED_REGISTRY_ACTOR_ADDR, &TokenAmount::zero(), fil_actor_verifreg::Method::ClaimAllocations as u64, Some(&cl)).0.code.is_success());
    // market: escrow and one published deal
    for p in [m1, client] {
        assert!(call(&v, &secp[3], &STORAGE_MARKET_ACTOR_ADDR, &fil(100), fil_actor_market::Method::AddBalance as u64, Some(&fil_actor_market::AddBalanceParams { provider_or_client: p })).0.code.is_success());
    }
    let prop = make_proposal(variant, client, m1, v.epoch() + 2000, 180 * market::DAY + 10, 11, "c11");
    let (_, _, pr) = publish(&v, &worker, vec![signed(&keys, &prop, &client)]);
    let deal_id = pr.expect("publish").ids[0];
    // EVM contract and ethaccount
    let c = super::c17::deploy_runtime(&v, &secp[3], &[evm::op::STOP]).expect("evm");
    who.insert("evm", Address::new_id(c.id));
    let f4 = evm::f4(&[0x42; 20]);
    call0(&v, &secp[3], &f4, &fil(10), METHOD_SEND);
    let ea = v.resolve_id_address(&f4).unwrap();
    call0(&v, &ea, &secp[3], &TokenAmount::zero(), METHOD_SEND); // placeholder -> ethaccount
    who.insert("ethaccount", ea);
    who.insert("account", secp[3]);
    // ---- a live 2 KiB miner with the same role holders: sectors in two deadlines, one faulty sector,
    // one pre-committed sector past the challenge delay; the clock stands inside `d_open`
    let lm = create_miner(&v, &owner, &worker, RegisteredPoStProof::StackedDRGWindow2KiBV1P1);
    who.insert("lminer", lm);
    call0(&v, &owner, &lm, &fil(100_000), METHOD_SEND);
    assert!(call(&v, &owner, &lm, &TokenAmount::zero(), MinerM::ChangeWorkerAddress as u64, Some(&fil_actor_miner::ChangeWorkerAddressParams { new_worker: worker, new_control_addresses: vec![control] })).0.code.is_success());
    let mn = crate::minerops::Mn { addr: lm, owner, worker, post_proof: RegisteredPoStProof::StackedDRGWindow2KiBV1P1, seal_proof: fvm_shared::sector::RegisteredSealProof::StackedDRG2KiBV1P1, ni_proof: fvm_shared::sector::RegisteredSealProof::StackedDRG2KiBV1P2_Feat_NiPoRep, next_sector: 0, creation_deposit: TokenAmount::zero(), whale: false, auto_post: false };
    let ms0 = crate::miner::snap_miner(&v, &lm).expect("live miner");
    let pol = v.policy.clone();
    let dl_now = crate::minerops::deadline_at(&pol, ms0.proving_period_start, v.epoch());
    let d_far = (dl_now.index + 8) % 48;
    let d_open = (d_far + 32) % 48;
    let exp = v.epoch() + 300 * market::DAY;
    assert!(crate::minerops::precommit(&v, &mn, &worker, &[900], v.epoch() + 250 * market::DAY, None).0.code.is_success());
    let (r, _) = crate::minerops::prove_commit_ni(&v, &mn, &worker, &[10, 11, 12, 13], exp, d_far);
    assert!(r.code.is_success(), "NI commit (far): {} {}", r.code, r.message);
    let (r, _) = crate::minerops::prove_commit_ni(&v, &mn, &worker, &[20, 21], exp, d_open);
    assert!(r.code.is_success(), "NI commit (open): {} {}", r.code, r.message);
    // travel (with cron) into d_far, prove its sectors, then on into d_open (32 deadlines later: d_far is
    // past its dispute window and mutable again)
    let t_far = dl_now.period_start + ((dl_now.index + 8) as i64) * pol.wpost_challenge_window + 5;
    crate::market::advance(&v, t_far, false, &mut |_, _, _| {});
    let msf = crate::miner::snap_miner(&v, &lm).expect("live miner");
    let dl_far = crate::minerops::deadline_at(&pol, msf.proving_period_start, v.epoch());
    assert_eq!(dl_far.index, d_far);
    let (r, _) = crate::minerops::submit_post(&v, &mn, &worker, &dl_far, vec![(0, vec![]), (1, vec![])], true);
    assert!(r.code.is_success(), "PoSt of the far deadline: {} {}", r.code, r.message);
    crate::market::advance(&v, t_far + 32 * pol.wpost_challenge_window, false, &mut |_, _, _| {});
    let (r, _) = crate::minerops::declare_faults(&v, &mn, &worker, &[(d_far, 0, vec![11])]);
    assert!(r.code.is_success(), "declare fault: {} {}", r.code, r.message);
    let ms1 = crate::miner::snap_miner(&v, &lm).expect("live miner");
    let dl_open = crate::minerops::deadline_at(&pol, ms1.proving_period_start, v.epoch());
    assert_eq!(dl_open.index, d_open);
    let live = Live { d_far, d_open, far_sectors: vec![10, 11, 12, 13], faulty: 11, precommitted: 900, expiration: exp, open_challenge: dl_open.challenge };
    // ---- a miner handed over to a new owner while the previous owner's beneficiary proposal was pending:
    // the proposal died with the handover, so only the new owner may (re)open it
    let (old_owner, new_owner, nominee) = (secp[8], secp[9], bls[7]);
    who.insert("oldowner", old_owner);
    who.insert("owner2", new_owner);
    who.insert("nominee", nominee);
    let hm = create_miner(&v, &old_owner, &bls[6], RegisteredPoStProof::StackedDRGWindow32GiBV1P1);
    who.insert("hminer", hm);
    // (a third party already is the beneficiary, so the new proposal needs approvals and stays pending)
    let third = secp[10];
    let bp0 = fil_actor_miner::ChangeBeneficiaryParams { new_beneficiary: third, new_quota: fil(500), new_expiration: 9_500_000 };
    assert!(call(&v, &old_owner, &hm, &TokenAmount::zero(), MinerM::ChangeBeneficiary as u64, Some(&bp0)).0.code.is_success());
    assert!(call(&v, &third, &hm, &TokenAmount::zero(), MinerM::ChangeBeneficiary as u64, Some(&bp0)).0.code.is_success());
    let hp = fil_actor_miner::ChangeBeneficiaryParams { new_beneficiary: nominee, new_quota: fil(77), new_expiration: 9_000_000 };
    assert!(call(&v, &old_owner, &hm, &TokenAmount::zero(), MinerM::ChangeBeneficiary as u64, Some(&hp)).0.code.is_success());
    assert!(call(&v, &old_owner, &hm, &TokenAmount::zero(), MinerM::ChangeOwnerAddress as u64, Some(&new_owner)).0.code.is_success());
    assert!(call(&v, &new_owner, &hm, &TokenAmount::zero(), MinerM::ChangeOwnerAddress as u64, Some(&new_owner)).0.code.is_success());
    // every caller class can pay for value-carrying cells
    for n in CALLERS {
        call0(&v, &secp[3], &who[n], &fil(50), METHOD_SEND);
    }
    v.invs.borrow_mut().clear();
    Fix { v, live, who, deal_id, claim_id, alloc_id, txn_id, txn3, keys }
}

pub struct Cell {
    pub target: &'static str,
    pub method: MethodNum,
    pub name: &'static str,
    pub who: Who,
    /// builds (value, params); None = no fixture (designated success not attempted)
    pub build: Option<Box<dyn Fn(&Fix, &Address) -> (TokenAmount, Option<IpldBlock>) + Sync + Send>>,
}

fn only(v: &[&'static str]) -> Who {
    Who::Only(v.to_vec())
}

macro_rules! cell {
    ($t:expr, $m:expr, $n:expr, $w:expr) => {
        Cell { target: $t, method: $m as u64, name: $n, who: $w, build: None }
    };
    ($t:expr, $m:expr, $n:expr, $w:expr, $b:expr) => {
        Cell { target: $t, method: $m as u64, name: $n, who: $w, build: Some(Box::new($b)) }
    };
}

/// The specification: written from the protocol's role descriptions, not generated from the code.
pub fn spec() -> Vec<Cell> {
    use fil_actor_market::Method as Mk;
    use fil_actor_multisig::Method as Ms;
    use fil_actor_power::Method as Pw;
    use fil_actor_verifreg::Method as Vr;
    let zero = || TokenAmount::zero();
    let mut c: Vec<Cell> = vec![];
    // ---- cron, reward
    c.push(cell!("cron", 2, "EpochTick", only(&["system"]), move |_, _| (zero(), None)));
    c.push(cell!("cron", 1, "Constructor", only(&["system"])));
    c.push(cell!("reward", 2, "AwardBlockReward", only(&["system"]), move |f: &Fix, _| (zero(), ser(&fil_actor_reward::AwardBlockRewardParams { miner: f.who["miner"], penalty: zero(), gas_reward: zero(), win_count: 1 }))));
    c.push(cell!("reward", 3, "ThisEpochReward", Who::Any, move |_, _| (zero(), None)));
    c.push(cell!("reward", 4, "UpdateNetworkKPI", only(&["power"]), move |_, _| (zero(), ser(&fvm_shared::bigint::bigint_ser::BigIntSer(&BigInt::from(1u64 << 40))))));
    // ---- init
    c.push(cell!("init", 2, "Exec", Who::Any, move |f: &Fix, _| (zero(), ser(&fil_actor_init::ExecParams { code_cid: *PAYCH_ACTOR_CODE_ID, constructor_params: RawBytes::serialize(&fil_actor_paych::ConstructorParams { from: f.who["payer"], to: f.who["payee"] }).unwrap() }))));
    c.push(cell!("init", 3, "Exec4", only(&["eam"]), move |_, _| (zero(), ser(&fil_actor_init::Exec4Params { code_cid: *EVM_ACTOR_CODE_ID, constructor_params: RawBytes::serialize(&fil_actor_evm::ConstructorParams { creator: evm::eth_address(&[9; 20]), initcode: RawBytes::new(evm::initcode_for(&[0])) }).unwrap(), subaddress: vec![0x77; 20].into() }))));
    // ---- power
    c.push(cell!("power", Pw::UpdateClaimedPower, "UpdateClaimedPower", Who::MinerType, move |_, _| (zero(), ser(&fil_actor_power::UpdateClaimedPowerParams { raw_byte_delta: BigInt::zero(), quality_adjusted_delta: BigInt::zero() }))));
    c.push(cell!("power", Pw::EnrollCronEvent, "EnrollCronEvent", Who::MinerType, move |f: &Fix, _| (zero(), ser(&fil_actor_power::EnrollCronEventParams { event_epoch: f.v.epoch() + 10, payload: RawBytes::serialize(&fil_actor_miner::CronEventPayload { event_type: fil_actor_miner::CRON_EVENT_PROCESS_EARLY_TERMINATIONS }).unwrap() }))));
    c.push(cell!("power", Pw::OnEpochTickEnd, "OnEpochTickEnd", only(&["cron"]), move |_, _| (zero(), None)));
    c.push(cell!("power", Pw::UpdatePledgeTotal, "UpdatePledgeTotal", Who::MinerType, move |_, _| (zero(), ser(&TokenAmount::from_atto(1)))));
    c.push(cell!("power", Pw::CurrentTotalPower, "CurrentTotalPower", Who::Any, move |_, _| (zero(), None)));
    c.push(cell!("power", Pw::MinerCountExported, "MinerCount", Who::Any, move |_, _| (zero(), None)));
    c.push(cell!("power", Pw::NetworkRawPowerExported, "NetworkRawPower", Who::Any, move |_, _| (zero(), None)));
    c.push(cell!("power", 1, "Constructor", only(&["system"])));
    // ---- market
    c.push(cell!("market", Mk::AddBalance, "AddBalance", Who::Any, move |f: &Fix, _| (fil(1), ser(&fil_actor_market::AddBalanceParams { provider_or_client: f.who["client"] }))));
    c.push(cell!("market", Mk::WithdrawBalance, "WithdrawBalance(client)", only(&["client"]), move |f: &Fix, _| (zero(), ser(&fil_actor_market::WithdrawBalanceParams { provider_or_client: f.who["client"], amount: atto(7) }))));
    c.push(cell!("market", Mk::WithdrawBalance, "WithdrawBalance(provider)", only(&["owner", "worker"]), move |f: &Fix, _| (zero(), ser(&fil_actor_market::WithdrawBalanceParams { provider_or_client: f.who["miner"], amount: atto(7) }))));
    c.push(cell!("market", Mk::VerifyDealsForActivation, "VerifyDealsForActivation", Who::MinerType, move |_, _| (zero(), ser(&fil_actor_market::VerifyDealsForActivationParams { sectors: vec![] }))));
    c.push(cell!("market", Mk::BatchActivateDeals, "BatchActivateDeals", Who::MinerType, move |_, _| (zero(), ser(&fil_actor_market::BatchActivateDealsParams { sectors: vec![], compute_cid: false }))));
    c.push(cell!("market", Mk::OnMinerSectorsTerminate, "OnMinerSectorsTerminate", Who::MinerType, move |f: &Fix, _| (zero(), ser(&fil_actor_market::OnMinerSectorsTerminateParams { epoch: f.v.epoch(), sectors: BitField::new() }))));
    c.push(cell!("market", Mk::CronTick, "CronTick", only(&["cron"]), move |_, _| (zero(), None)));
    c.push(cell!("market", Mk::SectorContentChangedExported, "SectorContentChanged", Who::MinerType, move |_, _| (zero(), ser(&fil_actor_miner::SectorContentChangedParams { sectors: vec![] }))));
    c.push(cell!("market", Mk::GetBalanceExported, "GetBalance", Who::Any, move |f: &Fix, _| (zero(), ser(&fil_actor_market::GetBalanceParams { account: f.who["client"] }))));
    c.push(cell!("market", Mk::GetDealClientExported, "GetDealClient", Who::Any, move |f: &Fix, _| (zero(), ser(&fil_actor_market::DealQueryParams { id: f.deal_id }))));
    c.push(cell!("market", Mk::SettleDealPaymentsExported, "SettleDealPayments", Who::Any, move |f: &Fix, _| {
        let mut b = BitField::new();
        b.set(f.deal_id);
        (zero(), ser(&fil_actor_market::SettleDealPaymentsParams { deal_ids: b }))
    }));
    c.push(cell!("market", 1, "Constructor", only(&["system"])));
    // ---- verified registry / datacap
    c.push(cell!("verifreg", Vr::AddVerifier, "AddVerifier", only(&["rootmsig"]), move |f: &Fix, _| (zero(), ser(&fil_actor_verifreg::VerifierParams { address: f.who["stranger"], allowance: BigInt::from(1u64 << 30) }))));
    c.push(cell!("verifreg", Vr::RemoveVerifier, "RemoveVerifier", only(&["rootmsig"]), move |f: &Fix, _| (zero(), ser(&fil_actor_verifreg::RemoveVerifierParams { verifier: f.who["verifier"] }))));
    c.push(cell!("verifreg", Vr::AddVerifiedClient, "AddVerifiedClient", only(&["verifier"]), move |f: &Fix, _| (zero(), ser(&fil_actor_verifreg::AddVerifiedClientParams { address: f.who["stranger"], allowance: BigInt::from(1u64 << 20) }))));
    c.push(cell!("verifreg", Vr::ClaimAllocations, "ClaimAllocations", only(&["miner"]), move |f: &Fix, _| {
        let cl = fil_actor_verifreg::ClaimAllocationsParams { sectors: vec![fil_actor_verifreg::SectorAllocationClaims { sector: 8, expiry: f.v.epoch() + 200 * market::DAY, claims: vec![fil_actor_verifreg::AllocationClaim { client: f.who["client"].id().unwrap(), allocation_id: f.alloc_id, data: make_piece_cid(b"a"), size: fvm_shared::piece::PaddedPieceSize(1 << 20) }] }], all_or_nothing: true };
        (zero(), ser(&cl))
    }));
    c.push(cell!("verifreg", Vr::GetClaims, "GetClaims", Who::Any, move |f: &Fix, _| (zero(), ser(&fil_actor_verifreg::GetClaimsParams { provider: f.who["miner"].id().unwrap(), claim_ids: vec![f.claim_id] }))));
    c.push(cell!("verifreg", Vr::RemoveExpiredAllocations, "RemoveExpiredAllocations", Who::Any, move |f: &Fix, _| (zero(), ser(&fil_actor_verifreg::RemoveExpiredAllocationsParams { client: f.who["client"].id().unwrap(), allocation_ids: vec![] }))));
    c.push(cell!("verifreg", Vr::UniversalReceiverHook, "Receive", only(&["datacap"])));
    c.push(cell!("verifreg", 1, "Constructor", only(&["system"])));
    c.push(cell!("datacap", fil_actor_datacap::Method::MintExported, "Mint", only(&["verifreg"]), move |f: &Fix, _| (zero(), ser(&fil_actor_datacap::MintParams { to: f.who["client"], amount: crate::verif::whole(1 << 20), operators: vec![] }))));
    c.push(cell!("datacap", fil_actor_datacap::Method::DestroyExported, "Destroy", only(&["verifreg"]), move |f: &Fix, _| (zero(), ser(&fil_actor_datacap::DestroyParams { owner: f.who["client"], amount: crate::verif::whole(1 << 20) }))));
    c.push(cell!("datacap", fil_actor_datacap::Method::TotalSupplyExported, "TotalSupply", Who::Any, move |_, _| (zero(), None)));
    c.push(cell!("datacap", fil_actor_datacap::Method::BalanceExported, "Balance", Who::Any, move |f: &Fix, _| (zero(), ser(&f.who["client"]))));
    // ---- multisig
    c.push(cell!("msig", Ms::Propose, "Propose", only(&["signer1", "signer2"]), move |f: &Fix, _| (zero(), ser(&fil_actor_multisig::ProposeParams { to: f.who["stranger"], value: atto(3), method: METHOD_SEND, params: RawBytes::default() }))));
    c.push(cell!("msig", Ms::Approve, "Approve", only(&["signer2"]), move |f: &Fix, _| (zero(), ser(&fil_actor_multisig::TxnIDParams { id: fil_actor_multisig::TxnID(f.txn_id), proposal_hash: vec![] }))));
    c.push(cell!("msig", Ms::Cancel, "Cancel", only(&["signer1"]), move |f: &Fix, _| (zero(), ser(&fil_actor_multisig::TxnIDParams { id: fil_actor_multisig::TxnID(f.txn_id), proposal_hash: vec![] }))));
    c.push(cell!("msig3", Ms::Cancel, "Cancel(approved by a second signer)", only(&["signer1"]), move |f: &Fix, _| (zero(), ser(&fil_actor_multisig::TxnIDParams { id: fil_actor_multisig::TxnID(f.txn3), proposal_hash: vec![] }))));
    c.push(cell!("msig3", Ms::Approve, "Approve(third signer)", only(&["signer3"]), move |f: &Fix, _| (zero(), ser(&fil_actor_multisig::TxnIDParams { id: fil_actor_multisig::TxnID(f.txn3), proposal_hash: vec![] }))));
    c.push(cell!("msig", Ms::AddSigner, "AddSigner", only(&["msig"]), move |f: &Fix, _| (zero(), ser(&fil_actor_multisig::AddSignerParams { signer: f.who["stranger"], increase: false }))));
    c.push(cell!("msig", Ms::RemoveSigner, "RemoveSigner", only(&["msig"]), move |f: &Fix, _| (zero(), ser(&fil_actor_multisig::RemoveSignerParams { signer: f.who["signer2"], decrease: true }))));
    c.push(cell!("msig", Ms::SwapSigner, "SwapSigner", only(&["msig"]), move |f: &Fix, _| (zero(), ser(&fil_actor_multisig::SwapSignerParams { from: f.who["signer2"], to: f.who["stranger"] }))));
    c.push(cell!("msig", Ms::ChangeNumApprovalsThreshold, "ChangeNumApprovalsThreshold", only(&["msig"]), move |_, _| (zero(), ser(&fil_actor_multisig::ChangeNumApprovalsThresholdParams { new_threshold: 1 }))));
    c.push(cell!("msig", Ms::LockBalance, "LockBalance", only(&["msig"]), move |_, _| (zero(), ser(&fil_actor_multisig::LockBalanceParams { start_epoch: 0, unlock_duration: 10, amount: atto(1) }))));
    c.push(cell!("msig", 1, "Constructor", only(&["init"])));
    // ---- payment channel
    c.push(cell!("paych", fil_actor_paych::Method::Settle, "Settle", only(&["payer", "payee"]), move |_, _| (zero(), None)));
    c.push(cell!("paych", fil_actor_paych::Method::UpdateChannelState, "UpdateChannelState", only(&["payer", "payee"]), move |f: &Fix, caller: &Address| {
        // a voucher signed by the other party than the caller (for outsiders: by the payer)
        let signer = if *caller == f.who["payer"] { f.who["payee"] } else { f.who["payer"] };
        let mut sv = fil_actor_paych::SignedVoucher { channel_addr: f.who["paych"], time_lock_min: 0, time_lock_max: 0, secret_pre_image: vec![], extra: None, lane: 1, nonce: 1, amount: atto(10), min_settle_height: 0, merges: vec![], signature: None };
        sv.signature = Some(fvm_shared::crypto::signature::Signature { sig_type: fvm_shared::crypto::signature::SignatureType::BLS, bytes: sign(&f.keys[&signer], &sv.signing_bytes().unwrap()) });
        (zero(), ser(&fil_actor_paych::UpdateChannelStateParams { sv, secret: vec![] }))
    }));
    c.push(cell!("paych", fil_actor_paych::Method::Collect, "Collect", only(&["payer", "payee"])));
    c.push(cell!("paych", 1, "Constructor", only(&["init"])));
    // ---- miner
    c.push(cell!("miner", MinerM::ControlAddresses, "ControlAddresses", Who::Any, move |_, _| (zero(), None)));
    c.push(cell!("miner", MinerM::ChangeWorkerAddress, "ChangeWorkerAddress", only(&["owner"]), move |f: &Fix, _| (zero(), ser(&fil_actor_miner::ChangeWorkerAddressParams { new_worker: f.who["worker"], new_control_addresses: vec![f.who["control"]] }))));
    c.push(cell!("miner", MinerM::ChangePeerID, "ChangePeerID", only(&["owner", "worker", "control"]), move |_, _| (zero(), ser(&fil_actor_miner::ChangePeerIDParams { new_id: b"peer2".to_vec() }))));
    c.push(cell!("miner", MinerM::ChangeMultiaddrs, "ChangeMultiaddrs", only(&["owner", "worker", "control"]), move |_, _| (zero(), ser(&fil_actor_miner::ChangeMultiaddrsParams { new_multi_addrs: vec![] }))));
    c.push(cell!("miner", MinerM::ConfirmChangeWorkerAddress, "ConfirmChangeWorkerAddress", only(&["owner"]), move |_, _| (zero(), None)));
    c.push(cell!("miner", MinerM::ChangeOwnerAddress, "ChangeOwnerAddress(propose)", only(&["owner"]), move |f: &Fix, _| (zero(), ser(&f.who["stranger"]))));
    c.push(cell!("miner", MinerM::WithdrawBalance, "WithdrawBalance", only(&["owner", "beneficiary"]), move |_, _| (zero(), ser(&fil_actor_miner::WithdrawBalanceParams { amount_requested: atto(9) }))));
    c.push(cell!("miner", MinerM::RepayDebt, "RepayDebt", only(&["owner", "worker", "control"]), move |_, _| (zero(), None)));
    c.push(cell!("miner", MinerM::ApplyRewards, "ApplyRewards", only(&["reward"]), move |_, _| (zero(), ser(&fil_actor_miner::ApplyRewardParams { reward: TokenAmount::zero(), penalty: TokenAmount::zero() }))));
    c.push(cell!("miner", MinerM::OnDeferredCronEvent, "OnDeferredCronEvent", only(&["power"]), move |f: &Fix, _| {
        let rs: fil_actor_reward::State = state(&f.v, &REWARD_ACTOR_ADDR).unwrap();
        let ps: fil_actor_power::State = state(&f.v, &STORAGE_POWER_ACTOR_ADDR).unwrap();
        (zero(), ser(&fil_actor_miner::DeferredCronEventParams { event_payload: RawBytes::serialize(&fil_actor_miner::CronEventPayload { event_type: fil_actor_miner::CRON_EVENT_WORKER_KEY_CHANGE }).unwrap().to_vec(), reward_smoothed: rs.this_epoch_reward_smoothed, quality_adj_power_smoothed: ps.this_epoch_qa_power_smoothed }))
    }));
    c.push(cell!("miner", MinerM::CompactSectorNumbers, "CompactSectorNumbers", only(&["owner", "worker", "control"]), move |_, _| {
        let mut b = BitField::new();
        b.set(5000);
        (zero(), ser(&fil_actor_miner::CompactSectorNumbersParams { mask_sector_numbers: b }))
    }));
    c.push(cell!("miner", MinerM::PreCommitSectorBatch2, "PreCommitSectorBatch2", only(&["owner", "worker", "control"]), move |f: &Fix, _| {
        let info = fil_actor_miner::SectorPreCommitInfo { seal_proof: fvm_shared::sector::RegisteredSealProof::StackedDRG32GiBV1P1, sector_number: 321, sealed_cid: make_sealed_cid(b"c11"), seal_rand_epoch: f.v.epoch() - 1, deal_ids: vec![], expiration: f.v.epoch() + 230 * market::DAY, unsealed_cid: fil_actor_miner::CompactCommD::empty() };
        (zero(), ser(&fil_actor_miner::PreCommitSectorBatchParams2 { sectors: vec![info] }))
    }));
    c.push(cell!("miner", MinerM::InternalSectorSetupForPreseal, "InternalSectorSetupForPreseal", only(&["system"])));
    c.push(cell!("miner", MinerM::GetBeneficiary, "GetBeneficiary", Who::Any, move |_, _| (zero(), None)));
    c.push(cell!("miner", MinerM::GetOwnerExported, "GetOwner", Who::Any, move |_, _| (zero(), None)));
    c.push(cell!("miner", MinerM::IsControllingAddressExported, "IsControllingAddress", Who::Any, move |f: &Fix, _| (zero(), ser(&fil_actor_miner::IsControllingAddressParam { address: f.who["worker"] }))));
    c.push(cell!("miner", MinerM::ProveReplicaUpdates3, "ProveReplicaUpdates3", only(&["owner", "worker", "control"])));
    c.push(cell!("miner", 1, "Constructor", only(&["init"])));
    // ---- the live miner (sectors, an open deadline, a faulty sector, a ready pre-commit)
    let ctl = || only(&["owner", "worker", "control"]);
    let bf1 = |x: u64| {
        let mut b = BitField::new();
        b.set(x);
        b
    };
    c.push(cell!("lminer", MinerM::SubmitWindowedPoSt, "SubmitWindowedPoSt", ctl(), move |f: &Fix, _| {
        let p = fil_actor_miner::SubmitWindowedPoStParams {
            deadline: f.live.d_open,
            partitions: vec![fil_actor_miner::PoStPartition { index: 0, skipped: BitField::new() }],
            proofs: vec![fvm_shared::sector::PoStProof { post_proof: RegisteredPoStProof::StackedDRGWindow2KiBV1P1, proof_bytes: vec![1, 2, 3] }],
            chain_commit_epoch: f.live.open_challenge.max(f.v.epoch() - 10).min(f.v.epoch() - 1),
            chain_commit_rand: fvm_shared::randomness::Randomness(crate::mvm::TEST_VM_RAND_ARRAY.into()),
        };
        (zero(), ser(&p))
    }));
    c.push(cell!("lminer", MinerM::DeclareFaults, "DeclareFaults", ctl(), move |f: &Fix, _| (zero(), ser(&fil_actor_miner::DeclareFaultsParams { faults: vec![fil_actor_miner::FaultDeclaration { deadline: f.live.d_far, partition: 0, sectors: bf1(10) }] }))));
    c.push(cell!("lminer", MinerM::DeclareFaultsRecovered, "DeclareFaultsRecovered", ctl(), move |f: &Fix, _| (zero(), ser(&fil_actor_miner::DeclareFaultsRecoveredParams { recoveries: vec![fil_actor_miner::RecoveryDeclaration { deadline: f.live.d_far, partition: 0, sectors: bf1(f.live.faulty) }] }))));
    c.push(cell!("lminer", MinerM::TerminateSectors, "TerminateSectors", ctl(), move |f: &Fix, _| (zero(), ser(&fil_actor_miner::TerminateSectorsParams { terminations: vec![fil_actor_miner::TerminationDeclaration { deadline: f.live.d_far, partition: 1, sectors: bf1(12) }] }))));
    c.push(cell!("lminer", MinerM::ExtendSectorExpiration2, "ExtendSectorExpiration2", ctl(), move |f: &Fix, _| (zero(), ser(&fil_actor_miner::ExtendSectorExpiration2Params { extensions: vec![fil_actor_miner::ExpirationExtension2 { deadline: f.live.d_far, partition: 1, sectors: bf1(13), sectors_with_claims: vec![], new_expiration: f.live.expiration + 20 * market::DAY }] }))));
    c.push(cell!("lminer", MinerM::CompactPartitions, "CompactPartitions", ctl(), move |f: &Fix, _| (zero(), ser(&fil_actor_miner::CompactPartitionsParams { deadline: f.live.d_far, partitions: bf1(1) }))));
    c.push(cell!("lminer", MinerM::ProveCommitSectors3, "ProveCommitSectors3", ctl(), move |f: &Fix, _| {
        let p = fil_actor_miner::ProveCommitSectors3Params {
            sector_activations: vec![fil_actor_miner::SectorActivationManifest { sector_number: f.live.precommitted, pieces: vec![] }],
            sector_proofs: vec![RawBytes::new(vec![7u8; 4])],
            aggregate_proof: RawBytes::default(),
            aggregate_proof_type: None,
            require_activation_success: true,
            require_notification_success: false,
        };
        (zero(), ser(&p))
    }));
    c.push(cell!("lminer", MinerM::ProveCommitSectorsNI, "ProveCommitSectorsNI", ctl(), move |f: &Fix, _| {
        let lm = f.who["lminer"];
        let p = fil_actor_miner::ProveCommitSectorsNIParams {
            sectors: vec![fil_actor_miner::SectorNIActivationInfo { sealing_number: 30, sealer_id: lm.id().unwrap(), sealed_cid: make_sealed_cid(b"c11-ni"), sector_number: 30, seal_rand_epoch: f.v.epoch() - 1, expiration: f.v.epoch() + 300 * market::DAY }],
            aggregate_proof: RawBytes::new(vec![1u8; 1024]),
            seal_proof_type: fvm_shared::sector::RegisteredSealProof::StackedDRG2KiBV1P2_Feat_NiPoRep,
            aggregate_proof_type: fvm_shared::sector::RegisteredAggregateProof::SnarkPackV2,
            proving_deadline: f.live.d_far,
            require_activation_success: true,
        };
        (zero(), ser(&p))
    }));
    c.push(cell!("lminer", MinerM::ReportConsensusFault, "ReportConsensusFault", Who::Any));
    c.push(cell!("lminer", MinerM::GetAvailableBalanceExported, "GetAvailableBalance", Who::Any, move |_, _| (zero(), None)));
    c.push(cell!("lminer", MinerM::GetVestingFundsExported, "GetVestingFunds", Who::Any, move |_, _| (zero(), None)));
    c.push(cell!("lminer", MinerM::GetSectorSizeExported, "GetSectorSize", Who::Any, move |_, _| (zero(), None)));
    c.push(cell!("lminer", MinerM::ChangeBeneficiary, "ChangeBeneficiary(propose)", only(&["owner"]), move |f: &Fix, _| (zero(), ser(&fil_actor_miner::ChangeBeneficiaryParams { new_beneficiary: f.who["stranger"], new_quota: fil(5), new_expiration: f.v.epoch() + 1000 }))));
    c.push(cell!("hminer", MinerM::ChangeBeneficiary, "ChangeBeneficiary(proposal of the previous owner)", only(&["owner2"]), move |f: &Fix, _| (zero(), ser(&fil_actor_miner::ChangeBeneficiaryParams { new_beneficiary: f.who["nominee"], new_quota: fil(77), new_expiration: 9_000_000 }))));
    // ---- market / power rows that need a provider
    c.push(cell!("market", Mk::PublishStorageDeals, "PublishStorageDeals", only(&["owner", "worker", "control"]), move |f: &Fix, _| {
        let prop = make_proposal(77, f.who["client"], f.who["miner"], f.v.epoch() + 3000, 180 * market::DAY + 10, 12, "c11-second");
        (zero(), ser(&fil_actor_market::PublishStorageDealsParams { deals: vec![signed(&f.keys, &prop, &f.who["client"])] }))
    }));
    c.push(cell!("power", Pw::CreateMiner, "CreateMiner", Who::Any, move |f: &Fix, caller: &Address| {
        let p = fil_actor_power::CreateMinerParams { owner: f.who["stranger"], worker: f.who["worker"], window_post_proof_type: RegisteredPoStProof::StackedDRGWindow32GiBV1P1, peer: format!("peer-{caller}").into_bytes(), multiaddrs: vec![] };
        (crate::world::create_miner_deposit(&f.v), ser(&p))
    }));
    // ---- read-only getters and remaining public methods
    for (m, n) in [(Mk::GetDealDataCommitmentExported, "GetDealDataCommitment"), (Mk::GetDealProviderExported, "GetDealProvider"), (Mk::GetDealLabelExported, "GetDealLabel"), (Mk::GetDealTermExported, "GetDealTerm"), (Mk::GetDealTotalPriceExported, "GetDealTotalPrice"), (Mk::GetDealClientCollateralExported, "GetDealClientCollateral"), (Mk::GetDealProviderCollateralExported, "GetDealProviderCollateral"), (Mk::GetDealVerifiedExported, "GetDealVerified"), (Mk::GetDealActivationExported, "GetDealActivation")] {
        c.push(cell!("market", m, n, Who::Any, move |f: &Fix, _| (zero(), ser(&fil_actor_market::DealQueryParams { id: f.deal_id }))));
    }
    c.push(cell!("power", Pw::MinerRawPowerExported, "MinerRawPower", Who::Any, move |f: &Fix, _| (zero(), ser(&fil_actor_power::MinerRawPowerParams { miner: f.who["miner"].id().unwrap() }))));
    c.push(cell!("power", Pw::MinerPowerExported, "MinerPower", Who::Any, move |f: &Fix, _| (zero(), ser(&fil_actor_power::MinerPowerParams { miner: f.who["miner"].id().unwrap() }))));
    c.push(cell!("power", Pw::MinerConsensusCountExported, "MinerConsensusCount", Who::Any, move |_, _| (zero(), None)));
    c.push(cell!("miner", MinerM::GetPeerIDExported, "GetPeerID", Who::Any, move |_, _| (zero(), None)));
    c.push(cell!("verifreg", Vr::ExtendClaimTerms, "ExtendClaimTerms(empty)", Who::Any, move |_, _| (zero(), ser(&fil_actor_verifreg::ExtendClaimTermsParams { terms: vec![] }))));
    c.push(cell!("verifreg", Vr::RemoveExpiredClaims, "RemoveExpiredClaims", Who::Any, move |f: &Fix, _| (zero(), ser(&fil_actor_verifreg::RemoveExpiredClaimsParams { provider: f.who["miner"].id().unwrap(), claim_ids: vec![] }))));
    c.push(cell!("verifreg", Vr::RemoveVerifiedClientDataCap, "RemoveVerifiedClientDataCap", only(&["rootmsig"])));
    for (m, n) in [(fil_actor_datacap::Method::NameExported, "Name"), (fil_actor_datacap::Method::SymbolExported, "Symbol"), (fil_actor_datacap::Method::GranularityExported, "Granularity")] {
        c.push(cell!("datacap", m, n, Who::Any, move |_, _| (zero(), None)));
    }
    c.push(cell!("account", fil_actor_account::Method::AuthenticateMessageExported, "AuthenticateMessage", Who::Any, move |f: &Fix, _| {
        let msg = b"c11 message".to_vec();
        (zero(), ser(&fil_actor_account::types::AuthenticateMessageParams { signature: sign(&f.keys[&f.who["account"]], &msg), message: msg }))
    }));
    c.push(cell!("msig", Ms::UniversalReceiverHook, "UniversalReceiverHook", Who::Any, move |_, _| (zero(), ser(&fvm_actor_utils::receiver::UniversalReceiverParams { type_: 0x1234, payload: RawBytes::new(vec![1, 2, 3]) }))));
    // ---- the exported duplicates of restricted-range methods: same rule, second method number
    {
        let dups: Vec<(&'static str, u64, u64)> = vec![
            ("miner", MinerM::ChangeWorkerAddress as u64, MinerM::ChangeWorkerAddressExported as u64),
            ("miner", MinerM::ChangePeerID as u64, MinerM::ChangePeerIDExported as u64),
            ("miner", MinerM::WithdrawBalance as u64, MinerM::WithdrawBalanceExported as u64),
            ("miner", MinerM::ChangeMultiaddrs as u64, MinerM::ChangeMultiaddrsExported as u64),
            ("miner", MinerM::ConfirmChangeWorkerAddress as u64, MinerM::ConfirmChangeWorkerAddressExported as u64),
            ("miner", MinerM::RepayDebt as u64, MinerM::RepayDebtExported as u64),
            ("miner", MinerM::ChangeOwnerAddress as u64, MinerM::ChangeOwnerAddressExported as u64),
            ("lminer", MinerM::ChangeBeneficiary as u64, MinerM::ChangeBeneficiaryExported as u64),
            ("miner", MinerM::GetBeneficiary as u64, MinerM::GetBeneficiaryExported as u64),
            ("market", Mk::AddBalance as u64, Mk::AddBalanceExported as u64),
            ("market", Mk::WithdrawBalance as u64, Mk::WithdrawBalanceExported as u64),
            ("market", Mk::PublishStorageDeals as u64, Mk::PublishStorageDealsExported as u64),
            ("verifreg", Vr::AddVerifiedClient as u64, Vr::AddVerifiedClientExported as u64),
            ("verifreg", Vr::RemoveExpiredAllocations as u64, Vr::RemoveExpiredAllocationsExported as u64),
            ("verifreg", Vr::GetClaims as u64, Vr::GetClaimsExported as u64),
            ("verifreg", Vr::ExtendClaimTerms as u64, Vr::ExtendClaimTermsExported as u64),
            ("verifreg", Vr::RemoveExpiredClaims as u64, Vr::RemoveExpiredClaimsExported as u64),
            ("power", Pw::CreateMiner as u64, Pw::CreateMinerExported as u64),
        ];
        let n0 = c.len();
        for (t, base, exported) in dups {
            for i in 0..n0 {
                if c[i].target == t && c[i].method == base {
                    if let Some(b) = c[i].build.take() {
                        let shared: std::sync::Arc<dyn Fn(&Fix, &Address) -> (TokenAmount, Option<IpldBlock>) + Sync + Send> = std::sync::Arc::from(b);
                        let (s1, s2) = (shared.clone(), shared);
                        c[i].build = Some(Box::new(move |f: &Fix, a: &Address| s1(f, a)));
                        let name: &'static str = Box::leak(format!("{}(exported)", c[i].name).into_boxed_str());
                        let who = c[i].who.clone();
                        c.push(Cell { target: t, method: exported, name, who, build: Some(Box::new(move |f: &Fix, a: &Address| s2(f, a))) });
                    }
                }
            }
        }
    }
    // ---- EVM / EAM / accounts
    c.push(cell!("evm", fil_actor_evm::Method::GetBytecode, "GetBytecode", Who::Any, move |_, _| (zero(), None)));
    c.push(cell!("evm", fil_actor_evm::Method::GetBytecodeHash, "GetBytecodeHash", Who::Any, move |_, _| (zero(), None)));
    c.push(cell!("evm", fil_actor_evm::Method::GetStorageAt, "GetStorageAt", only(&["system"]), move |_, _| (zero(), ser(&fil_actor_evm::GetStorageAtParams { storage_key: fil_actors_evm_shared::uints::U256::from(1u64) }))));
    c.push(cell!("evm", fil_actor_evm::Method::InvokeContract, "InvokeContract", Who::Any, move |_, _| (zero(), ser(&fil_actor_evm::InvokeContractParams { input_data: vec![] }))));
    c.push(cell!("evm", fil_actor_evm::Method::InvokeContractDelegate, "InvokeContractDelegate", only(&["evm"])));
    c.push(cell!("evm", fil_actor_evm::Method::Resurrect, "Resurrect", only(&["eam"])));
    c.push(cell!("evm", 1, "Constructor", only(&["init"])));
    c.push(cell!("eam", fil_actor_eam::Method::Create, "Create", Who::EvmType, move |_, _| (zero(), ser(&fil_actor_eam::CreateParams { initcode: evm::initcode_for(&[0]), nonce: 7 }))));
    c.push(cell!("eam", fil_actor_eam::Method::Create2, "Create2", Who::EvmType, move |_, _| (zero(), ser(&fil_actor_eam::Create2Params { initcode: evm::initcode_for(&[0]), salt: [3u8; 32] }))));
    c.push(cell!("eam", 1, "Constructor", only(&["system"])));
    c.push(cell!("account", 2, "PubkeyAddress", Who::Any, move |_, _| (zero(), None)));
    c.push(cell!("account", 1, "Constructor", only(&["system"])));
    c.push(cell!("ethaccount", 1, "Constructor", only(&["system"])));
    c
}

pub const CALLERS: &[&str] = &[
    "system", "init", "reward", "cron", "power", "market", "verifreg", "datacap", "eam", "rootmsig", "miner", "miner2", "lminer", "hminer", "oldowner", "owner2", "nominee", "owner", "worker", "control", "beneficiary",
    "stranger", "signer1", "signer2", "signer3", "msig", "msig3", "othermsig", "payer", "payee", "paych", "verifier", "client", "evm", "ethaccount",
];

fn designated(f: &Fix, cell: &Cell, caller: &'static str) -> bool {
    let caddr = f.who[caller];
    let ctype = f.v.actor_type(caddr.id().unwrap());
    let restricted_target = !matches!(cell.target, "evm" | "eam");
    // EVM contracts (and unknown code) cannot invoke methods below the exported range of restricted actors
    if restricted_target && cell.method < (1 << 24) && ctype == Some(Type::EVM) {
        return false;
    }
    match &cell.who {
        Who::Any => true,
        Who::Only(names) => names.iter().any(|n| f.who[n] == caddr),
        Who::MinerType => ctype == Some(Type::Miner),
        Who::EvmType => ctype == Some(Type::EVM),
    }
}

pub fn matrix(variant: u64) -> Outcome {
    let mut o = Outcome::default();
    let f = fixture(variant);
    let base = f.v.snapshot();
    let cells = spec();
    let mut executed = 0u64;
    for cell in &cells {
        let target = f.who[cell.target];
        for caller in CALLERS {
            let caddr = f.who[caller];
            let want = designated(&f, cell, caller);
            let Some(build) = &cell.build else {
                // no fixture: only the rejection side is decided, and only for callers that can never be
                // designated (different actor type / EVM restriction)
                if want {
                    o.seen("designated_cells_without_fixture", format!("{}.{}", cell.target, cell.name));
                    continue;
                }
                f.v.restore(&base);
                let root0 = f.v.checkpoint();
                let (r, _) = f.v.exec(&caddr, &target, &TokenAmount::zero(), cell.method, None);
                executed += 1;
                o.count("cells_executed");
                if r.code.is_success() {
                    o.violate("non_designated_rejected", format!("C11/non_designated_accepted:{}.{}", cell.target, cell.name), format!("variant {variant}: {}.{} (method {}) called by {caller} ({caddr}) without parameters succeeded", cell.target, cell.name, cell.method));
                }
                let _ = root0;
                continue;
            };
            f.v.restore(&base);
            let (value, params) = build(&f, &caddr);
            let before = f.v.actor_states();
            let (r, inv) = f.v.exec(&caddr, &target, &value, cell.method, params);
            executed += 1;
            o.count("cells_executed");
            let key = format!("{}.{}", cell.target, cell.name);
            if want {
                o.count("designated_cells");
                if !r.code.is_success() {
                    o.violate("designated_accepted", format!("C11/designated_rejected:{key}"), format!("variant {variant}: {key} (method {}) called by designated caller {caller} ({caddr}) failed with {}: {}", cell.method, r.code, r.message));
                } else if let Some(inv) = &inv {
                    inv.walk(&mut |i, _, _| {
                        if i.ok() && i.method != METHOD_SEND && !i.caller_validated && !i.injected {
                            o.violate("caller_validated", "C11/completed_without_validating_caller", format!("variant {variant}: {} -> {} method {} completed without validating its caller", i.from, i.to, i.method));
                        }
                    });
                }
            } else {
                o.count("non_designated_cells");
                if r.code.is_success() {
                    o.violate("non_designated_rejected", format!("C11/non_designated_accepted:{key}"), format!("variant {variant}: {key} (method {}) called by {caller} ({caddr}), who is not designated, succeeded", cell.method));
                } else {
                    // "changes nothing": every actor's state and balance as before (only the sender's nonce moves)
                    let after = f.v.actor_states();
                    for (a, s) in &after {
                        if let Some(b) = before.get(a)
                            && (b.state != s.state || b.balance != s.balance || b.code != s.code)
                        {
                            o.violate("rejected_changes_nothing", format!("C11/rejected_call_changed_state:{key}"), format!("variant {variant}: rejected {key} by {caller} changed actor {a}"));
                        }
                    }
                    if after.len() != before.len() {
                        o.violate("rejected_changes_nothing", format!("C11/rejected_call_changed_state:{key}"), format!("variant {variant}: rejected {key} by {caller} changed the set of actors"));
                    }
                }
            }
        }
    }
    // undefined method numbers: rejected for every caller (actors with a universal fallback accept exported numbers)
    let fallback_targets = ["account", "ethaccount", "msig", "evm"];
    for target in ["system", "init", "reward", "cron", "power", "market", "verifreg", "datacap", "eam", "miner", "msig", "paych", "account", "ethaccount", "evm"] {
        let taddr = f.who.get(target).cloned().unwrap_or(SYSTEM_ACTOR_ADDR);
        let defined: Vec<u64> = cells.iter().filter(|c| c.target == target).map(|c| c.method).collect();
        let mut nums: Vec<u64> = (1..=40u64).filter(|m| !defined.contains(m)).collect();
        nums.extend([(1 << 24) + 12345, 3_000_000_000u64]);
        for m in nums {
            if target == "miner" && [2u64, 5, 9, 10, 11, 13, 15, 19, 24, 31, 32, 34, 35, 36, 16, 18, 20, 21, 22, 23, 28, 30, 14, 12, 17, 3, 4].contains(&m) {
                continue; // defined miner methods exercised above or lacking a fixture
            }
            if target == "market" && (2..=9).contains(&m) {
                continue;
            }
            if target == "verifreg" && (2..=12).contains(&m) {
                continue;
            }
            if target == "power" && (2..=9).contains(&m) {
                continue;
            }
            if target == "evm" && (2..=6).contains(&m) {
                continue;
            }
            if target == "eam" && (2..=4).contains(&m) {
                continue;
            }
            if target == "init" && (2..=3).contains(&m) {
                continue;
            }
            for caller in ["stranger", "evm", "miner2", "system"] {
                f.v.restore(&base);
                let (r, _) = f.v.exec(&f.who[caller], &taddr, &TokenAmount::zero(), m, None);
                executed += 1;
                o.count("undefined_method_cells");
                let has_fallback = fallback_targets.contains(&target) && m >= (1 << 24);
                let evm_low = target == "evm" && m > 1023;
                if r.code.is_success() && !has_fallback && !evm_low {
                    o.violate("undefined_rejected", format!("C11/undefined_method_accepted:{target}"), format!("variant {variant}: {target} accepted undefined method {m} from {caller}"));
                }
            }
        }
    }
    o.op(format!("variant {variant}: {executed} cells executed over {} spec rows and {} caller classes", cells.len(), CALLERS.len()));
    o.hash_mix(variant + 1);
    o.nontrivial = executed > 500;
    o
}

pub fn run(cfg: &Cfg) -> i32 {
    let mut agg = Agg::new(cfg);
    let tier = cfg.tier;
    let seed = cfg.seed;
    agg.run_parallel("matrix", tier.pick(2, 8), Duration::from_secs(tier.pick(200, 900)), |i, _rng: Rng| matrix(seed * 100 + i));
    let cells = spec();
    let no_fixture: Vec<String> = cells.iter().filter(|c| c.build.is_none()).map(|c| format!("{}.{}", c.target, c.name)).collect();
    agg.finish(
        "exploration",
        "the (spec row x caller class) matrix is enumerated completely in every fixture world (2 worlds in quick, 8 in thorough: different epochs and keys): 28 caller classes (all singletons, miner-typed actors, the target itself, its role holders owner / worker / control / beneficiary / signers / channel parties / verifier / client / root multisig, unrelated account, multisig, EVM contract, ethaccount) x every specified method with a succeeding fixture call, each from a restored snapshot; designated callers must succeed with the caller validated, all others must fail and leave every actor's state and balance unchanged; rows without a fixture are decided on the rejection side only and are listed; undefined method numbers 1..40 and two exported-range samples per actor must be rejected. A matrix counts as non-trivial when more than 500 cells were executed",
        2,
        &["the specification table in c11.rs is mine (written from the protocol's role descriptions)", "FVM and MVM may use different exit codes for rejected callers: only rejection is tested", "miner methods that need live sectors (PoSt, prove-commit, faults, extensions, compaction, replica update, NI commit), paych Collect, verifreg Receive, EVM delegate/resurrect and the constructors have no succeeding fixture: only their rejection side is decided"],
        serde_json::json!({"exhaustive_over": "spec rows x caller classes", "rows_without_fixture": no_fixture, "spec_rows": cells.len(), "caller_classes": CALLERS.len()}),
    )
}
