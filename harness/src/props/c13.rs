//! C13 — control of a miner changes hands only by two-sided, delayed handover.
//! Three protocol automata (owner, worker key, beneficiary) judged on every message and tick from
//! the miner's info before/after and the observed caller; rights are probed on restored snapshots.
use crate::framework::*;
use crate::market::DAY;
use crate::miner::{InfoSnap, snap_miner};
use crate::minerops::*;
use crate::rng::Rng;
use crate::world::*;
use fil_actor_miner::{ChangeBeneficiaryParams, ChangeWorkerAddressParams, Method as MinerMethod};
use fvm_shared::address::Address;
use fvm_shared::bigint::Zero;
use fvm_shared::clock::ChainEpoch;
use fvm_shared::econ::TokenAmount;
use std::time::Duration;
use vm_api::VM;

#[derive(Clone, Debug, Default)]
struct BenModel {
    /// pending proposal and who approved it, from observed successful calls
    pending: Option<(Address, TokenAmount, ChainEpoch, bool, bool)>,
    /// who made the pending proposal (must still be the owner when it takes effect)
    proposer: Option<Address>,
}

fn term_active(i: &InfoSnap, epoch: ChainEpoch) -> bool {
    // the current beneficiary's term is active while not expired and quota left
    epoch < i.term.2 && i.term.1 < i.term.0
}

pub fn history(index: u64, mut rng: Rng, tier: Tier) -> Outcome {
    let mut o = Outcome::default();
    let mut w = miner_world(5_000_000 + index, miner_policy(4096), &[false], 0, 100 + rng.range(0, 2000));
    let policy = w.v.policy.clone();
    let m = w.miners[0].clone();
    let v = &w.v;
    // cast: owner, worker, three BLS keys usable as workers, strangers
    let people: Vec<Address> = w.others.clone();
    let bls: Vec<Address> = people.iter().cloned().filter(|a| key_of(v, a).protocol() == fvm_shared::address::Protocol::BLS).collect();
    // activate the cron so that worker-key changes can also take effect in the deadline callback
    if rng.chance(2, 3) {
        let sn = w.miners[0].next_sector;
        w.miners[0].next_sector += 1;
        let exp = v.epoch() + 230 * DAY;
        let (r, _) = precommit(v, &m, &m.worker, &[sn], exp, None);
        assert!(r.code.is_success(), "{}", r.message);
    }
    let mut pre = snap_miner(v, &m.addr).unwrap().info;
    let mut ben = BenModel::default();
    let mut worker_requested_at: Option<ChainEpoch> = None;
    let nops = tier.pick(45, 70);
    let mut transitions = 0u64;

    for step in 0..nops {
        let epoch = v.epoch();
        let mut cast: Vec<Address> = vec![pre.owner, pre.worker, pre.beneficiary];
        if let Some(p) = pre.pending_owner {
            cast.push(p);
        }
        if let Some(p) = &pre.pending_worker {
            cast.push(p.0);
        }
        if let Some(p) = &pre.pending_beneficiary {
            cast.push(p.0);
        }
        cast.extend(pre.control.iter().cloned());
        cast.push(people[0]);
        cast.push(people[1]);
        let pick_caller = |rng: &mut Rng, likely: Address| if rng.chance(2, 3) { likely } else { *rng.pick(&cast) };
        let kind = rng.weighted(&[18, 14, 10, 22, 6, 20, 10]);
        let (desc, caller, method, ok): (String, Address, u64, bool) = match kind {
            0 => {
                // ChangeOwnerAddress: proposal by owner, confirmation by nominee, wrong ones
                let (caller, new) = match (rng.weighted(&[40, 40, 20]), pre.pending_owner) {
                    (0, _) => (pick_caller(&mut rng, pre.owner), *rng.pick(&people)),
                    (1, Some(p)) => (pick_caller(&mut rng, p), if rng.chance(5, 6) { p } else { *rng.pick(&people) }),
                    (1, None) => (pre.owner, *rng.pick(&people)),
                    _ => (pick_caller(&mut rng, pre.owner), pre.owner),
                };
                let (r, _) = call(v, &caller, &m.addr, &TokenAmount::zero(), MinerMethod::ChangeOwnerAddress as u64, Some(&new));
                (format!("ChangeOwnerAddress({new}) by {caller} -> {}", r.code), caller, MinerMethod::ChangeOwnerAddress as u64, r.code.is_success())
            }
            1 => {
                let caller = pick_caller(&mut rng, pre.owner);
                let nw = if rng.chance(3, 4) { *rng.pick(&bls) } else { pre.worker };
                let controls: Vec<Address> = rng.subset(&people, 1, 4);
                let (r, _) = call(v, &caller, &m.addr, &TokenAmount::zero(), MinerMethod::ChangeWorkerAddress as u64, Some(&ChangeWorkerAddressParams { new_worker: nw, new_control_addresses: controls.clone() }));
                (format!("ChangeWorkerAddress({nw}, {:?}) by {caller} -> {}", controls, r.code), caller, MinerMethod::ChangeWorkerAddress as u64, r.code.is_success())
            }
            2 => {
                let caller = pick_caller(&mut rng, pre.owner);
                let (r, _) = call0(v, &caller, &m.addr, &TokenAmount::zero(), MinerMethod::ConfirmChangeWorkerAddress as u64);
                (format!("ConfirmChangeWorkerAddress by {caller} -> {}", r.code), caller, MinerMethod::ConfirmChangeWorkerAddress as u64, r.code.is_success())
            }
            3 => {
                // ChangeBeneficiary: proposal by owner, approvals by nominee / current beneficiary
                let (caller, p) = match (rng.weighted(&[40, 60]), &pre.pending_beneficiary) {
                    (1, Some(pb)) => {
                        let c = match rng.weighted(&[40, 40, 20]) {
                            0 => pb.0,
                            1 => pre.beneficiary,
                            _ => *rng.pick(&cast),
                        };
                        let mut p = ChangeBeneficiaryParams { new_beneficiary: pb.0, new_quota: pb.1.clone(), new_expiration: pb.2 };
                        if rng.chance(1, 8) {
                            p.new_quota += atto(1);
                        }
                        (c, p)
                    }
                    _ => {
                        let nb = if rng.chance(1, 5) { pre.owner } else { *rng.pick(&people) };
                        let back_to_owner = nb == pre.owner;
                        (
                            pick_caller(&mut rng, pre.owner),
                            ChangeBeneficiaryParams {
                                new_beneficiary: nb,
                                new_quota: if back_to_owner { TokenAmount::zero() } else { fil(rng.range(1, 100)) },
                                new_expiration: if back_to_owner { 0 } else { epoch + rng.range(-5, 4000) },
                            },
                        )
                    }
                };
                let (r, _) = change_beneficiary(v, &m, &caller, &p);
                (format!("ChangeBeneficiary({}, {}, {}) by {caller} -> {}", p.new_beneficiary, p.new_quota, p.new_expiration, r.code), caller, MinerMethod::ChangeBeneficiary as u64, r.code.is_success())
            }
            4 => {
                let caller = pick_caller(&mut rng, pre.beneficiary);
                let (r, winv) = withdraw(v, &m, &caller, &atto(1 + rng.below(1u64 << 62)));
                if let (true, Some(winv)) = (r.code.is_success(), &winv) {
                    // the beneficiary's quota is spent by what it was actually paid, nothing else
                    let mut paid = TokenAmount::zero();
                    for i in winv.effective() {
                        if Address::new_id(i.from) == m.addr && Address::new_id(i.to_id().unwrap_or(u64::MAX)) == pre.beneficiary && i.method == fvm_shared::METHOD_SEND {
                            paid += i.value.clone();
                        }
                    }
                    let after = snap_miner(v, &m.addr).unwrap().info;
                    if after.beneficiary == pre.beneficiary && pre.beneficiary != pre.owner {
                        o.count("quota_charges_checked");
                        if &after.term.1 - &pre.term.1 != paid {
                            o.violate("quota", "C13/quota_charged_ne_paid", format!("step {step}: WithdrawBalance paid {paid} to the beneficiary but its used quota moved {} -> {}", pre.term.1, after.term.1));
                        }
                    }
                }
                (format!("WithdrawBalance by {caller} -> {}", r.code), caller, MinerMethod::WithdrawBalance as u64, r.code.is_success())
            }
            5 => {
                // advance, aiming at the worker-key delay and the beneficiary expiry
                let mut targets = vec![epoch + rng.range(1, 100)];
                if let Some(p) = &pre.pending_worker {
                    targets.push(p.1 + rng.range(-1, 1));
                }
                if pre.term.2 > epoch {
                    targets.push(pre.term.2 + rng.range(-1, 1));
                }
                let to = (*rng.pick(&targets)).max(epoch + 1);
                let mut failed = None;
                let mut info_pre = pre.clone();
                advance_miners(v, to, false, &mut |at, inv, okk| {
                    if !okk {
                        failed = Some(inv.exit);
                    }
                    // worker change may take effect inside the deadline callback
                    let post = snap_miner(v, &m.addr).unwrap().info;
                    judge(&info_pre, &post, at, None, 0, true, &policy, &mut ben, &mut worker_requested_at, &mut o, &format!("tick at {at}"));
                    info_pre = post;
                });
                pre = info_pre;
                o.op(format!("{step}: e{epoch} advance to {to}"));
                continue;
            }
            _ => {
                // arbitrary other miner method by arbitrary caller (must not touch control data)
                let caller = *rng.pick(&cast);
                let meth = *rng.pick(&[MinerMethod::ChangePeerID as u64, MinerMethod::RepayDebt as u64, MinerMethod::ChangeMultiaddrs as u64, MinerMethod::ConfirmChangeWorkerAddressExported as u64]);
                let (r, _) = call0(v, &caller, &m.addr, &TokenAmount::zero(), meth);
                (format!("method {meth} by {caller} -> {}", r.code), caller, meth, r.code.is_success())
            }
        };
        o.op(format!("{step}: e{epoch} {desc}"));
        o.count(if ok { "messages_ok" } else { "messages_rejected" });
        o.hash_mix(((kind as u64) << 1) | ok as u64);
        let post = snap_miner(v, &m.addr).unwrap().info;
        if post != pre {
            transitions += 1;
        }
        judge(&pre, &post, epoch, Some(caller), method, ok, &policy, &mut ben, &mut worker_requested_at, &mut o, &format!("step {step}"));
        pre = post;
        // rights probes on a snapshot: the current parties keep their rights, nominees have none yet
        let snap0 = v.snapshot();
        let probe = |who: &Address, method: u64| -> bool {
            let keep = v.keep_invs.replace(false);
            let r = if method == MinerMethod::ChangeWorkerAddress as u64 {
                call(v, who, &m.addr, &TokenAmount::zero(), method, Some(&ChangeWorkerAddressParams { new_worker: pre.worker, new_control_addresses: pre.control.clone() })).0
            } else {
                withdraw(v, &m, who, &TokenAmount::zero()).0
            };
            v.keep_invs.set(keep);
            v.restore(&snap0);
            r.code.is_success()
        };
        o.count("rights_probes");
        if !probe(&pre.owner, MinerMethod::ChangeWorkerAddress as u64) {
            o.violate("rights_kept", "C13/owner_lost_rights", format!("step {step}: current owner {} can no longer act as owner", pre.owner));
        }
        if let Some(p) = pre.pending_owner
            && p != pre.owner
            && probe(&p, MinerMethod::ChangeWorkerAddress as u64)
        {
            o.violate("rights_kept", "C13/proposed_owner_has_rights", format!("step {step}: proposed owner {p} can already act as owner"));
        }
        if let Some(pb) = &pre.pending_beneficiary
            && pb.0 != pre.owner
            && pb.0 != pre.beneficiary
            && probe(&pb.0, MinerMethod::WithdrawBalance as u64)
        {
            o.violate("rights_kept", "C13/nominee_can_withdraw", format!("step {step}: beneficiary nominee {} can already withdraw", pb.0));
        }
        if !probe(&pre.beneficiary, MinerMethod::WithdrawBalance as u64) && !probe(&pre.owner, MinerMethod::WithdrawBalance as u64) {
            // legitimate: the beneficiary's term is exhausted/expired, or the world's pledge total underflows (C03 finding)
            o.count("withdraw_probe_fails_for_owner_and_beneficiary");
        }
    }
    o.add("info_transitions", transitions);
    o.nontrivial = transitions >= 4;
    o
}

/// Is the change pre -> post allowed, given who called what?
#[allow(clippy::too_many_arguments)]
fn judge(pre: &InfoSnap, post: &InfoSnap, epoch: ChainEpoch, caller: Option<Address>, method: u64, ok: bool, policy: &fil_actors_runtime::runtime::Policy, ben: &mut BenModel, worker_requested_at: &mut Option<ChainEpoch>, o: &mut Outcome, when: &str) {
    o.count("transitions_judged");
    if !ok && caller.is_some() {
        if pre != post {
            o.violate("rejected_changes_nothing", "C13/rejected_call_changed_info", format!("{when}: rejected call changed miner info"));
        }
        return;
    }
    let is = |m: MinerMethod| method == m as u64;
    let in_tick = caller.is_none();
    // ---- owner
    if post.owner != pre.owner {
        o.count("owner_handover_completed");
        let good = caller == Some(post.owner) && pre.pending_owner == Some(post.owner) && (is(MinerMethod::ChangeOwnerAddress) || is(MinerMethod::ChangeOwnerAddressExported));
        if !good {
            o.violate("owner_two_sided", "C13/owner_changed_without_confirmation", format!("{when}: owner {} -> {} by caller {:?} (pending was {:?})", pre.owner, post.owner, caller, pre.pending_owner));
        }
    }
    if post.pending_owner != pre.pending_owner && post.owner == pre.owner && caller != Some(pre.owner) {
        o.violate("owner_two_sided", "C13/pending_owner_changed_by_other", format!("{when}: pending owner {:?} -> {:?} by {:?}, owner is {}", pre.pending_owner, post.pending_owner, caller, pre.owner));
    }
    // ---- worker
    if post.worker != pre.worker {
        o.count("worker_change_effective");
        let good = match &pre.pending_worker {
            Some((nw, eff)) => *nw == post.worker && epoch >= *eff && (in_tick || (caller == Some(pre.owner) && (is(MinerMethod::ConfirmChangeWorkerAddress) || is(MinerMethod::ConfirmChangeWorkerAddressExported)))),
            None => false,
        };
        if !good {
            o.violate("worker_delayed", "C13/worker_changed_early_or_unrequested", format!("{when}: worker {} -> {} at epoch {epoch} by {:?}; pending was {:?}", pre.worker, post.worker, caller, pre.pending_worker));
        }
        if let Some(req) = worker_requested_at
            && epoch < *req + policy.worker_key_change_delay
        {
            o.violate("worker_delayed", "C13/worker_effective_before_delay", format!("{when}: worker change requested at {req} effective at {epoch}, delay is {}", policy.worker_key_change_delay));
        }
        *worker_requested_at = None;
    }
    if post.pending_worker != pre.pending_worker && post.worker == pre.worker {
        match (&pre.pending_worker, &post.pending_worker) {
            (None, Some((_, eff))) => {
                if caller != Some(pre.owner) || *eff < epoch + policy.worker_key_change_delay {
                    o.violate("worker_delayed", "C13/worker_change_requested_by_other_or_short_delay", format!("{when}: pending worker {:?} created by {:?} at {epoch} (owner {})", post.pending_worker, caller, pre.owner));
                }
                *worker_requested_at = Some(epoch);
            }
            _ => o.violate("worker_delayed", "C13/pending_worker_altered", format!("{when}: pending worker {:?} -> {:?} by {:?}", pre.pending_worker, post.pending_worker, caller)),
        }
    }
    if post.control != pre.control && !(caller == Some(pre.owner) && (is(MinerMethod::ChangeWorkerAddress) || is(MinerMethod::ChangeWorkerAddressExported))) {
        o.violate("control_by_owner", "C13/control_addresses_changed_by_other", format!("{when}: control addresses {:?} -> {:?} by {:?}", pre.control, post.control, caller));
    }
    // ---- beneficiary
    let owner_moved = post.owner != pre.owner;
    if is(MinerMethod::ChangeBeneficiary) || is(MinerMethod::ChangeBeneficiaryExported) {
        // model update from the observed successful call
        if let Some(c) = caller {
            if c == pre.owner {
                // a (new) proposal: read what was proposed from the post state or from the effect
                let active = term_active(pre, epoch);
                match &post.pending_beneficiary {
                    Some(pb) => {
                        ben.pending = Some((pb.0, pb.1.clone(), pb.2, !active || c == pre.beneficiary, c == pb.0));
                        ben.proposer = Some(c);
                    }
                    None => {
                        ben.pending = None; // took effect at once (checked below)
                        ben.proposer = None;
                    }
                }
            } else if let Some(p) = ben.pending.as_mut() {
                if c == pre.beneficiary {
                    p.3 = true;
                }
                if c == p.0 {
                    p.4 = true;
                }
            }
        }
    }
    if post.beneficiary != pre.beneficiary || (post.term.0 != pre.term.0 || post.term.2 != pre.term.2) {
        if owner_moved && pre.beneficiary == pre.owner && post.beneficiary == post.owner {
            o.count("beneficiary_follows_owner");
        } else {
            o.count("beneficiary_change_effective");
            // must come from a ChangeBeneficiary call whose proposal had the approval of the nominee
            // and of the current beneficiary (unless its term was no longer active)
            let c = caller;
            // a call by the owner carries a fresh proposal (replacing any pending one)
            let proposal = if c == Some(pre.owner) { Some((post.beneficiary, post.term.0.clone(), post.term.2, false, false)) } else { pre.pending_beneficiary.clone() };
            let good = (is(MinerMethod::ChangeBeneficiary) || is(MinerMethod::ChangeBeneficiaryExported)) && match (&proposal, c) {
                (Some(p), Some(c)) => {
                    let nominee_ok = c == p.0 || p.4 || ben.pending.as_ref().is_some_and(|m| m.4);
                    let beneficiary_ok = c == pre.beneficiary || p.3 || ben.pending.as_ref().is_some_and(|m| m.3) || !term_active(pre, epoch);
                    p.0 == post.beneficiary && nominee_ok && beneficiary_ok
                }
                _ => false,
            };
            // the proposal must have been made by the party that is the owner now: a proposal of a
            // previous owner dies with the handover
            let by_current_owner = c == Some(pre.owner) || ben.proposer == Some(pre.owner);
            if good && !by_current_owner {
                o.violate("beneficiary_two_sided", "C13/beneficiary_changed_on_stale_proposal", format!("{when}: beneficiary {} -> {} by {:?}: the pending proposal was made by {:?}, but the owner is now {}", pre.beneficiary, post.beneficiary, caller, ben.proposer, pre.owner));
            }
            if !good {
                o.violate("beneficiary_two_sided", "C13/beneficiary_changed_without_both_approvals", format!("{when}: beneficiary {} (term {:?}) -> {} (term {:?}) by {:?}; pending was {:?}; observed approvals {:?}", pre.beneficiary, pre.term, post.beneficiary, post.term, caller, pre.pending_beneficiary, ben.pending));
            }
            ben.pending = None;
            ben.proposer = None;
        }
    }
    if owner_moved {
        // an owner handover withdraws whatever the previous owner had proposed
        ben.pending = None;
        ben.proposer = None;
    }
    let took_effect = post.beneficiary != pre.beneficiary || post.term.0 != pre.term.0 || post.term.2 != pre.term.2;
    if post.pending_beneficiary != pre.pending_beneficiary && !took_effect {
        // a proposal may be created/replaced only by the owner; approvals recorded only for the right callers;
        // cleared only by owner change or by taking effect
        let c = caller;
        let allowed = match (&pre.pending_beneficiary, &post.pending_beneficiary) {
            (_, Some(n)) if c == Some(pre.owner) => n.4 == (c == Some(n.0)) || n.4,
            (Some(p), Some(n)) => {
                p.0 == n.0 && p.1 == n.1 && p.2 == n.2
                    && ((n.3 && !p.3 && c == Some(pre.beneficiary)) || n.3 == p.3)
                    && ((n.4 && !p.4 && c == Some(p.0)) || n.4 == p.4)
            }
            (Some(_), None) => owner_moved || c == Some(pre.owner),
            _ => false,
        };
        if !allowed {
            o.violate("beneficiary_two_sided", "C13/pending_beneficiary_altered_by_other", format!("{when}: pending beneficiary {:?} -> {:?} by {:?} (owner {}, beneficiary {})", pre.pending_beneficiary, post.pending_beneficiary, caller, pre.owner, pre.beneficiary));
        }
        if post.pending_beneficiary.is_none() {
            ben.pending = None;
        }
    }
    if post.term.1 < pre.term.1 && post.beneficiary == pre.beneficiary {
        o.violate("quota", "C13/used_quota_decreased", format!("{when}: used quota {} -> {}", pre.term.1, post.term.1));
    }
}

pub fn run(cfg: &Cfg) -> i32 {
    let mut agg = Agg::new(cfg);
    let tier = cfg.tier;
    agg.run_parallel("handover", tier.pick(3000, 30000), Duration::from_secs(tier.pick(200, 1500)), |i, rng| history(i, rng, tier));
    agg.finish(
        "exploration",
        "one history = one real miner (cron active in two thirds of the histories) and 45-70 messages: ChangeOwnerAddress proposals / confirmations / mismatching confirmations, ChangeWorkerAddress (new worker, control lists), ConfirmChangeWorkerAddress, ChangeBeneficiary proposals / approvals / altered terms / reverting to the owner, withdrawals and other methods, issued by owner, proposed owner, worker, pending worker, control addresses, beneficiary, nominee and strangers, with epoch advances aimed at the worker-key delay +-1 and beneficiary expiry +-1; every change of owner / worker / control / beneficiary / pending data must be a transition the protocol automata allow for the observed caller, rejected calls change nothing, rights are probed on snapshots; non-trivial = at least 4 info transitions",
        tier.pick(50, 500),
        &["MVM semantics", "an inactive beneficiary term is one that is expired or whose quota is used up (the current beneficiary's approval is then not required)"],
        serde_json::json!({}),
    )
}
