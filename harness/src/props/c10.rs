//! C10 — verified claims back quality-adjusted power and obey their terms.
//! Real path: DataCap allocation -> pre-commit -> ProveCommitSectors3 with verified pieces (the
//! miner claims the allocations) -> ExtendSectorExpiration2 with arbitrary maintain/drop
//! declarations, ExtendClaimTerms, removals, terminations. A shadow map (provider, sector) ->
//! backing claim ids is built only from observed successful calls.
use crate::framework::*;
use crate::market::DAY;
use crate::miner::{MinerSnap, snap_miner};
use crate::minerops::*;
use crate::rng::Rng;
use crate::verif::*;
use crate::world::*;
use fil_actor_miner::{
    ExpirationExtension2, ExtendSectorExpiration2Params, Method as MinerMethod,
    PieceActivationManifest, SectorClaim, VerifiedAllocationKey,
};
use fil_actor_verifreg::{
    AddVerifiedClientParams, AllocationRequest, ClaimAllocationsParams, ClaimAllocationsReturn,
    ClaimTerm, ExtendClaimTermsParams, Method as VerifregMethod, RemoveExpiredClaimsParams,
    VerifierParams,
};
use fil_actors_runtime::test_utils::make_piece_cid;
use fvm_ipld_bitfield::BitField;
use fvm_shared::address::Address;
use fvm_shared::bigint::{BigInt, Zero};
use fvm_shared::clock::ChainEpoch;
use fvm_shared::econ::TokenAmount;
use fvm_shared::piece::{PaddedPieceSize, PieceInfo};
use std::collections::{BTreeMap, BTreeSet};
use std::time::Duration;
use num_traits::Signed;
use vm_api::VM;

type Backing = BTreeMap<u64, BTreeSet<u64>>; // sector -> claim ids

fn check_backing(ms: &MinerSnap, vr: &VrSnap, backing: &Backing, epoch: ChainEpoch, o: &mut Outcome, when: &str) {
    let live: BTreeSet<u64> = ms.deadlines.iter().flat_map(|d| d.partitions.iter().flat_map(|p| p.live())).collect();
    for (sn, s) in &ms.sectors {
        if !live.contains(sn) || !s.verified_deal_weight.is_positive() {
            continue;
        }
        // a sector past its expiration epoch is only waiting for the cron at the end of its deadline: its
        // committed life is over, and its claims (whose terms covered that life) may legitimately have
        // expired and been removed in the meantime
        if epoch > s.expiration {
            o.count("sectors_past_expiration_awaiting_cron_not_judged");
            continue;
        }
        o.count("verified_sector_checks");
        let dur = s.expiration - s.power_base_epoch;
        let space = &s.verified_deal_weight / BigInt::from(dur);
        if &space * BigInt::from(dur) != s.verified_deal_weight {
            o.violate("verified_space", "C10/verified_weight_not_multiple_of_duration", format!("{when}: sector {sn} verified weight {} over duration {dur}", s.verified_deal_weight));
        }
        let ids = backing.get(sn).cloned().unwrap_or_default();
        let mut total = BigInt::zero();
        for id in &ids {
            match vr.claims.get(id) {
                None => o.violate("claims_exist", "C10/backing_claim_missing", format!("{when}: sector {sn} is credited verified space {space} but its backing claim {id} is no longer in the registry (epoch {epoch})")),
                Some(c) => {
                    total += c.size.0;
                    if c.provider != ms.id || c.sector != *sn {
                        o.violate("claims_match_sector", "C10/backing_claim_for_other_sector", format!("{when}: claim {id} backs sector {sn} of miner {} but names provider {} sector {}", ms.id, c.provider, c.sector));
                    }
                    if c.term_start < s.activation {
                        o.violate("claim_terms", "C10/claim_started_before_activation", format!("{when}: claim {id} term_start {} before sector {sn} activation {}", c.term_start, s.activation));
                    }
                    if s.expiration > c.term_start + c.term_max {
                        o.violate("claim_terms", "C10/sector_outlives_claim_term_max", format!("{when}: sector {sn} expires at {} but backing claim {id} allows at most {} (term_start {} + term_max {})", s.expiration, c.term_start + c.term_max, c.term_start, c.term_max));
                    }
                    if s.expiration < c.term_start + c.term_min {
                        o.violate("claim_terms", "C10/sector_shorter_than_claim_term_min", format!("{when}: sector {sn} expires at {} before backing claim {id}'s minimum term ends at {}", s.expiration, c.term_start + c.term_min));
                    }
                }
            }
        }
        if total != space {
            o.violate("verified_space", "C10/verified_space_ne_backing_claims", format!("{when}: sector {sn} is credited verified space {space} but its backing claims {:?} add up to {total}", ids));
        }
    }
}

pub fn history(index: u64, mut rng: Rng, tier: Tier, mode: u8) -> Outcome {
    // mode 0: random history; 1: directed repeated-claim declaration; 2: directed split declaration
    let directed = mode != 0;
    let mut o = Outcome::default();
    let mut w = miner_world(7_000_000 + index, miner_policy(4096), &[false], 80, 200 + rng.range(0, 2000));
    w.miners[0].auto_post = true;
    let m = w.miners[0].clone();
    // with the network's power estimate converged to this small network, a 32 GiB sector costs
    // ~260k FIL of pledge and deposit: fund the miner accordingly
    let (r, _) = call0(&w.v, &m.owner, &m.addr, &fil(30_000_000), fvm_shared::METHOD_SEND);
    assert!(r.code.is_success());
    let policy = w.v.policy.clone();
    let verifier = w.others[0];
    let client = w.others[1];
    let (_, _, ok) = via_root(&w.v, VerifregMethod::AddVerifier, &VerifierParams { address: verifier, allowance: BigInt::from(1u64 << 44) });
    assert!(ok);
    let (r, _) = call(&w.v, &verifier, &VR, &TokenAmount::zero(), VerifregMethod::AddVerifiedClient as u64, Some(&AddVerifiedClientParams { address: client, allowance: BigInt::from(1u64 << 43) }));
    assert!(r.code.is_success());
    let mut stop = false;
    let mut backing: Backing = BTreeMap::new();
    let mut prev_vr = snap_vr(&w.v);
    let mut piece_ctr = 0u64;
    let mut onboarded = 0u64;
    let mut extensions_ok = 0u64;
    let nops = if directed { 8 } else { tier.pick(26, 40) };

    // after every top-level message: update the shadow from the trace, then judge
    let mut after_msg = |w: &MinerWorld, inv: Option<&crate::mvm::Inv>, ok: bool, backing: &mut Backing, prev_vr: &mut VrSnap, o: &mut Outcome, when: &str, prev_ms: &MinerSnap| {
        if let (Some(inv), true) = (inv, ok) {
            for i in inv.effective() {
                if i.to == VR && i.method == VerifregMethod::ClaimAllocations as u64 && Address::new_id(i.from) == m.addr {
                    let p: ClaimAllocationsParams = i.params.as_ref().unwrap().deserialize().unwrap();
                    let r: ClaimAllocationsReturn = i.ret.as_ref().unwrap().deserialize().unwrap();
                    for (si, sec) in p.sectors.iter().enumerate() {
                        if !r.sector_results.fail_codes.iter().any(|f| f.idx as usize == si) {
                            for c in &sec.claims {
                                backing.entry(sec.sector).or_default().insert(c.allocation_id);
                                o.count("claims_observed");
                            }
                        }
                    }
                }
                if i.to == m.addr && i.method == MinerMethod::ExtendSectorExpiration2 as u64 {
                    let p: ExtendSectorExpiration2Params = i.params.as_ref().unwrap().deserialize().unwrap();
                    for e in &p.extensions {
                        for sc in &e.sectors_with_claims {
                            for d in &sc.drop_claims {
                                // dropping is only legitimate in the last 30 days of the sector's life
                                if let Some(s) = prev_ms.sectors.get(&sc.sector_number) {
                                    let epoch = w.v.epoch();
                                    if backing.get(&sc.sector_number).is_some_and(|b| b.contains(d)) {
                                        o.count("claims_dropped");
                                        if s.expiration - epoch > policy.end_of_life_claim_drop_period {
                                            o.violate("drop_window", "C10/claim_dropped_outside_final_30_days", format!("{when}: claim {d} dropped from sector {} with {} epochs of life left", sc.sector_number, s.expiration - epoch));
                                        }
                                    }
                                }
                                if let Some(b) = backing.get_mut(&sc.sector_number) {
                                    b.remove(d);
                                }
                            }
                        }
                    }
                }
            }
        }
        let ms = snap_miner(&w.v, &m.addr).unwrap();
        let vr = snap_vr(&w.v);
        let epoch = w.v.epoch();
        // registry history facts
        for (id, c) in &vr.claims {
            if let Some(pc) = prev_vr.claims.get(id)
                && c.term_max < pc.term_max
            {
                o.violate("term_max_monotone", "C10/claim_term_max_decreased", format!("{when}: claim {id} term_max {} -> {}", pc.term_max, c.term_max));
            }
        }
        for (id, c) in &prev_vr.claims {
            if !vr.claims.contains_key(id) && epoch < c.term_start + c.term_max {
                o.violate("claim_removed_after_expiry", "C10/claim_removed_before_expiry", format!("{when}: claim {id} (expires {}) removed at epoch {epoch}", c.term_start + c.term_max));
            }
        }
        for (id, a) in &prev_vr.allocs {
            if !vr.allocs.contains_key(id) && !vr.claims.contains_key(id) && epoch < a.expiration {
                o.violate("claim_removed_after_expiry", "C10/allocation_removed_before_expiry", format!("{when}: allocation {id} (expires {}) removed at epoch {epoch}", a.expiration));
            }
        }
        // forget sectors that are gone
        let live: BTreeSet<u64> = ms.deadlines.iter().flat_map(|d| d.partitions.iter().flat_map(|p| p.live())).collect();
        backing.retain(|sn, _| live.contains(sn));
        check_backing(&ms, &vr, backing, epoch, o, when);
        *prev_vr = vr;
        ms
    };

    let mut ms = snap_miner(&w.v, &m.addr).unwrap();
    for step in 0..nops {
        if stop {
            break;
        }
        let epoch = w.v.epoch();
        let verified: Vec<u64> = backing.keys().cloned().collect();
        // proven, healthy sectors of the miner (candidates for a replica update), with or without data
        let updatable: Vec<(u64, u64, u64)> = {
            let loc = locations(&ms);
            let dl = deadline_at(&policy, ms.proving_period_start, epoch);
            ms.deadlines
                .iter()
                .flat_map(|d| d.partitions.iter().flat_map(|p| p.active()))
                .filter_map(|sn| loc.get(&sn).map(|(d, p)| (sn, *d, *p)))
                .filter(|(_, d, _)| (*d + 48 - dl.index) % 48 >= 2)
                .collect()
        };
        let kind = if directed { if verified.is_empty() { 0 } else { 1 } } else { rng.weighted(&[if verified.len() < 3 { 40 } else { 12 }, if verified.is_empty() { 0 } else { 34 }, 8, 5, 4, 22, if updatable.is_empty() { 0 } else { 12 }, 10]) };
        match kind {
            6 => {
                // replica update with verified pieces: of a data-free sector (legitimate) or of one that already
                // holds verified data (must be refused: its earlier claims would be orphaned)
                let cc: Vec<(u64, u64, u64)> = updatable.iter().filter(|(sn, ..)| !backing.contains_key(sn)).cloned().collect();
                let (sn, d, p) = if !cc.is_empty() && rng.chance(2, 3) { *rng.pick(&cc) } else { *rng.pick(&updatable) };
                let Some(s) = ms.sectors.get(&sn).cloned() else { continue };
                let k = 1 + rng.below(2) as usize;
                let base = 20 + rng.below(8) as u32;
                let life = s.expiration - epoch;
                let mut reqs = vec![];
                let mut pieces = vec![];
                for j in 0..k {
                    piece_ctr += 1;
                    let size = PaddedPieceSize(1u64 << (base + j as u32));
                    let data = make_piece_cid(format!("up{index}-{piece_ctr}").as_bytes());
                    reqs.push(AllocationRequest { provider: m.addr.id().unwrap(), data, size, term_min: policy.minimum_verified_allocation_term.min(life.max(1)).max(policy.minimum_verified_allocation_term), term_max: (life + rng.range(1, 300) * DAY).max(policy.minimum_verified_allocation_term).min(policy.maximum_verified_allocation_term), expiration: epoch + rng.range(2, 40) * DAY });
                    pieces.push(PieceInfo { cid: data, size });
                }
                let total: u64 = reqs.iter().map(|r| r.size.0).sum();
                let (r, _) = transfer_to_registry(&w.v, &client, &whole(total), reqs.clone(), vec![]);
                if !r.code.is_success() {
                    o.op(format!("{step}: e{epoch} allocate for replica update -> {}", r.code));
                    continue;
                }
                let resp: frc46_token::token::types::TransferReturn = ret(&r).unwrap();
                let ar: fil_actor_verifreg::AllocationsResponse = resp.recipient_data.deserialize().unwrap();
                ms = after_msg(&w, None, true, &mut backing, &mut prev_vr, &mut o, &format!("step {step} allocate"), &ms);
                let manifests: Vec<PieceActivationManifest> = pieces.iter().zip(ar.new_allocations.iter()).map(|(pc, id)| PieceActivationManifest { cid: pc.cid, size: pc.size, verified_allocation_key: Some(VerifiedAllocationKey { client: client.id().unwrap(), id: *id }), notify: vec![] }).collect();
                let had_data = backing.contains_key(&sn);
                let (r, inv) = prove_replica_updates(&w.v, &m, &m.worker, vec![(sn, d, p, manifests)], true);
                o.op(format!("{step}: e{epoch} replica update of sector {sn} ({}) with allocations {:?} -> {} {}", if had_data { "already holds verified data" } else { "data-free" }, ar.new_allocations, r.code, &r.message[..r.message.len().min(80)]));
                if r.code.is_success() {
                    o.count(if had_data { "replica_updates_of_verified_sectors_accepted" } else { "replica_updates_ok" });
                }
                o.hash_mix(0x600 + (r.code.is_success() as u64));
                ms = after_msg(&w, inv.as_ref(), r.code.is_success(), &mut backing, &mut prev_vr, &mut o, &format!("step {step} replica-update"), &ms);
            }
            7 => {
                // a data-free (committed-capacity) sector, for later replica updates
                let sn = w.miners[0].next_sector;
                w.miners[0].next_sector += 1;
                let max_pc = fil_actor_miner::max_prove_commit_duration(&policy, m.seal_proof).unwrap();
                let (r, _) = precommit(&w.v, &m, &m.worker, &[sn], epoch + policy.min_sector_expiration + max_pc + rng.range(1, 60) * DAY, None);
                o.op(format!("{step}: e{epoch} precommit data-free sector {sn} -> {}", r.code));
                if !r.code.is_success() {
                    continue;
                }
                stop = !advance_light(&w, epoch + policy.pre_commit_challenge_delay + 1 + rng.range(0, 200), &mut o);
                if stop {
                    break;
                }
                let (r, inv) = prove_commit(&w.v, &m, &m.worker, &[sn], &BTreeSet::new(), true);
                o.op(format!("{step}: e{} prove-commit data-free sector {sn} -> {}", w.v.epoch(), r.code));
                ms = after_msg(&w, inv.as_ref(), r.code.is_success(), &mut backing, &mut prev_vr, &mut o, &format!("step {step} prove-commit cc"), &ms);
                if r.code.is_success() {
                    o.count("data_free_sectors_onboarded");
                    let to = w.v.epoch() + 2 * DAY + rng.range(0, DAY);
                    stop = !advance_light(&w, to, &mut o);
                    if stop {
                        break;
                    }
                    ms = after_msg(&w, None, true, &mut backing, &mut prev_vr, &mut o, &format!("step {step} after first PoSt"), &ms);
                }
            }
            0 => {
                // verified onboarding of one sector with 1-3 pieces
                let k = if directed { 2 } else { 1 + rng.below(3) as usize };
                let equal = directed || rng.chance(1, 2);
                let base = 20 + rng.below(8) as u32;
                let max_pc = fil_actor_miner::max_prove_commit_duration(&policy, m.seal_proof).unwrap();
                let lifetime = policy.min_sector_expiration + max_pc + rng.range(1, 20) * DAY; // from now
                let mut reqs = vec![];
                let mut pieces = vec![];
                for j in 0..k {
                    piece_ctr += 1;
                    let size = PaddedPieceSize(1u64 << if equal { base } else { base + j as u32 });
                    let data = make_piece_cid(format!("vp{index}-{piece_ctr}").as_bytes());
                    let tmin = policy.minimum_verified_allocation_term + rng.range(0, 20) * DAY;
                    let tmax = if directed {
                        // claim 0 allows a long life, claim 1 only a little more than the initial commitment
                        if j == 0 { lifetime + 300 * DAY } else { lifetime + rng.range(1, 10) * DAY }
                    } else {
                        match rng.weighted(&[80, 20]) {
                            0 => lifetime + rng.range(0, 120) * DAY,
                            _ => lifetime - rng.range(1, 5) * DAY,
                        }
                    }
                    .max(tmin);
                    reqs.push(AllocationRequest { provider: m.addr.id().unwrap(), data, size, term_min: tmin, term_max: tmax, expiration: epoch + rng.range(2, 40) * DAY });
                    pieces.push(PieceInfo { cid: data, size });
                }
                let total: u64 = reqs.iter().map(|r| r.size.0).sum();
                let (r, _) = transfer_to_registry(&w.v, &client, &whole(total), reqs.clone(), vec![]);
                o.op(format!("{step}: e{epoch} allocate {} pieces (sizes {:?}, term_max {:?}) -> {}", k, reqs.iter().map(|r| r.size.0).collect::<Vec<_>>(), reqs.iter().map(|r| r.term_max).collect::<Vec<_>>(), r.code));
                if !r.code.is_success() {
                    continue;
                }
                let resp: frc46_token::token::types::TransferReturn = ret(&r).unwrap();
                let ar: fil_actor_verifreg::AllocationsResponse = resp.recipient_data.deserialize().unwrap();
                ms = after_msg(&w, None, true, &mut backing, &mut prev_vr, &mut o, &format!("step {step} allocate"), &ms);
                let sn = w.miners[0].next_sector;
                w.miners[0].next_sector += 1;
                let commd: BTreeMap<u64, cid::Cid> = [(sn, commd_of(m.seal_proof, &pieces))].into_iter().collect();
                let (r, _) = precommit(&w.v, &m, &m.worker, &[sn], epoch + lifetime, Some(&commd));
                o.op(format!("{step}: e{epoch} precommit sector {sn} expiration {} -> {} {}", epoch + lifetime, r.code, &r.message[..r.message.len().min(80)]));
                if !r.code.is_success() {
                    continue;
                }
                stop = !advance_light(&w, epoch + policy.pre_commit_challenge_delay + 1 + rng.range(0, 200), &mut o);
                if stop {
                    break;
                }
                let manifests: Vec<PieceActivationManifest> = pieces
                    .iter()
                    .zip(ar.new_allocations.iter())
                    .map(|(p, id)| PieceActivationManifest { cid: p.cid, size: p.size, verified_allocation_key: Some(VerifiedAllocationKey { client: client.id().unwrap(), id: *id }), notify: vec![] })
                    .collect();
                let (r, inv) = prove_commit_pieces(&w.v, &m, &m.worker, vec![(sn, manifests)], true);
                o.op(format!("{step}: e{} prove-commit sector {sn} with allocations {:?} -> {} {}", w.v.epoch(), ar.new_allocations, r.code, &r.message[..r.message.len().min(80)]));
                if r.code.is_success() {
                    onboarded += 1;
                }
                o.hash_mix(0x100 + k as u64 + (r.code.is_success() as u64) * 8);
                ms = after_msg(&w, inv.as_ref(), r.code.is_success(), &mut backing, &mut prev_vr, &mut o, &format!("step {step} prove-commit"), &ms);
                if r.code.is_success() && (directed || rng.chance(2, 3)) {
                    // let the harness's maintenance PoSt cover the new sector (extensions need an active sector)
                    let to = w.v.epoch() + 2 * DAY + rng.range(0, DAY);
                    stop = !advance_light(&w, to, &mut o);
                    if stop {
                        break;
                    }
                    ms = after_msg(&w, None, true, &mut backing, &mut prev_vr, &mut o, &format!("step {step} after first PoSt"), &ms);
                }
            }
            1 => {
                // extension with an arbitrary maintain/drop declaration
                let sn = *rng.pick(&verified);
                let Some(s) = ms.sectors.get(&sn).cloned() else { continue };
                let Some((d, p)) = locations(&ms).get(&sn).cloned() else { continue };
                let ids: Vec<u64> = backing[&sn].iter().cloned().collect();
                if ids.is_empty() {
                    continue;
                }
                let mut maintain = vec![];
                let mut drop = vec![];
                match if mode == 1 { 2 } else if mode == 2 { 0 } else { rng.weighted(&[40, 20, 15, 15, 10]) } {
                    0 => maintain = ids.clone(),
                    1 => {
                        // drop some
                        for id in &ids {
                            if rng.chance(1, 2) { drop.push(*id) } else { maintain.push(*id) }
                        }
                    }
                    2 => {
                        // repeat one claim instead of listing another (sizes may coincide)
                        maintain = ids.clone();
                        if maintain.len() >= 2 {
                            // keep the claim with the longest allowed life, listed in place of another one
                            let keep = if directed { *ids.iter().max_by_key(|i| prev_vr.claims.get(i).map(|c| c.term_start + c.term_max).unwrap_or(0)).unwrap() } else { *rng.pick(&ids) };
                            let replace = if directed { maintain.iter().position(|x| *x != keep).unwrap_or(0) } else { rng.below(maintain.len() as u64) as usize };
                            maintain[replace] = keep;
                        } else {
                            maintain.push(ids[0]);
                        }
                    }
                    3 => {
                        maintain = rng.subset(&ids, 1, 2);
                    }
                    _ => {
                        maintain = ids.clone();
                        maintain.push(rng.below(prev_vr.next_id + 2));
                    }
                }
                let min_tmax_end = ids.iter().filter_map(|i| prev_vr.claims.get(i)).map(|c| c.term_start + c.term_max).min().unwrap_or(s.expiration);
                let new_exp = match if directed { 1 } else { rng.weighted(&[35, 35, 20, 10]) } {
                    0 => (s.expiration + rng.range(1, 60) * DAY).min(min_tmax_end),
                    1 => min_tmax_end + rng.range(1, 90) * DAY,
                    2 => min_tmax_end + rng.range(-1, 1),
                    _ => s.expiration - rng.range(0, 5) * DAY,
                };
                // split shape: the claims are declared in one declaration (at an expiration they all allow)
                // and the same sector is named again, without claims, in a second declaration of the message
                let split = mode == 2 || (mode == 0 && rng.chance(1, 6));
                // two-entry shape: the sector's claims are spread over two SectorClaim entries of one declaration
                let two_entries = maintain.len() >= 2 && if mode == 1 { index % 2 == 1 } else { rng.chance(1, 5) };
                let entries = if two_entries {
                    let cut = 1 + rng.below(maintain.len() as u64 - 1) as usize;
                    vec![
                        SectorClaim { sector_number: sn, maintain_claims: maintain[..cut].to_vec(), drop_claims: vec![] },
                        SectorClaim { sector_number: sn, maintain_claims: maintain[cut..].to_vec(), drop_claims: drop.clone() },
                    ]
                } else {
                    vec![SectorClaim { sector_number: sn, maintain_claims: maintain.clone(), drop_claims: drop.clone() }]
                };
                let with_claims = ExpirationExtension2 { deadline: d, partition: p, sectors: BitField::new(), sectors_with_claims: entries, new_expiration: if split { s.expiration + if rng.chance(1, 2) { 0 } else { DAY } } else { new_exp } };
                let mut extensions = vec![with_claims];
                if split {
                    let mut plain = BitField::new();
                    plain.set(sn);
                    let second = ExpirationExtension2 { deadline: d, partition: p, sectors: plain, sectors_with_claims: vec![], new_expiration: new_exp };
                    if rng.chance(1, 4) {
                        extensions.insert(0, second);
                    } else {
                        extensions.push(second);
                    }
                }
                let params = ExtendSectorExpiration2Params { extensions };
                let (r, inv) = call(&w.v, &m.worker, &m.addr, &TokenAmount::zero(), MinerMethod::ExtendSectorExpiration2 as u64, Some(&params));
                o.op(format!("{step}: e{epoch} extend sector {sn} (exp {}, backing {:?}, min claim end {min_tmax_end}) to {new_exp}{} maintain {:?} drop {:?} -> {} {}", s.expiration, ids, if split { " [split: claims declared at the current expiration, sector named again without claims]" } else if two_entries { " [claims spread over two entries]" } else { "" }, maintain, drop, r.code, &r.message[..r.message.len().min(70)]));
                if r.code.is_success() {
                    extensions_ok += 1;
                    let mut shape = String::new();
                    let uniq: BTreeSet<u64> = maintain.iter().cloned().collect();
                    if uniq.len() != maintain.len() {
                        shape.push_str("repeated-claim-id ");
                    }
                    if !drop.is_empty() {
                        shape.push_str("with-drops ");
                    }
                    if split {
                        shape.push_str("split-declarations ");
                    }
                    if two_entries {
                        shape.push_str("two-claim-entries ");
                    }
                    o.seen("accepted_extension_shapes", if shape.is_empty() { "plain".to_string() } else { shape });
                }
                o.hash_mix(0x200 + (r.code.is_success() as u64));
                ms = after_msg(&w, inv.as_ref(), r.code.is_success(), &mut backing, &mut prev_vr, &mut o, &format!("step {step} extend"), &ms);
            }
            2 => {
                // client extends claim terms
                let ids: Vec<u64> = prev_vr.claims.keys().cloned().collect();
                if ids.is_empty() {
                    continue;
                }
                let id = *rng.pick(&ids);
                let c = prev_vr.claims[&id].clone();
                let tm = c.term_max + rng.range(-5, 300) * DAY;
                let (r, inv) = call(&w.v, &client, &VR, &TokenAmount::zero(), VerifregMethod::ExtendClaimTerms as u64, Some(&ExtendClaimTermsParams { terms: vec![ClaimTerm { provider: c.provider, claim_id: id, term_max: tm }] }));
                o.op(format!("{step}: e{epoch} ExtendClaimTerms claim {id} {} -> {tm} -> {}", c.term_max, r.code));
                ms = after_msg(&w, inv.as_ref(), r.code.is_success(), &mut backing, &mut prev_vr, &mut o, &format!("step {step} extend-claim-terms"), &ms);
            }
            3 => {
                let ids: Vec<u64> = prev_vr.claims.keys().cloned().collect();
                let pick = if rng.chance(1, 2) { vec![] } else { rng.subset(&ids, 1, 2) };
                let (r, inv) = call(&w.v, &client, &VR, &TokenAmount::zero(), VerifregMethod::RemoveExpiredClaims as u64, Some(&RemoveExpiredClaimsParams { provider: m.addr.id().unwrap(), claim_ids: pick.clone() }));
                o.op(format!("{step}: e{epoch} RemoveExpiredClaims {:?} -> {}", pick, r.code));
                ms = after_msg(&w, inv.as_ref(), r.code.is_success(), &mut backing, &mut prev_vr, &mut o, &format!("step {step} remove-expired-claims"), &ms);
            }
            4 => {
                if verified.is_empty() {
                    continue;
                }
                let sn = *rng.pick(&verified);
                let decls = group(&ms, &[sn], &mut rng, false);
                let (r, inv) = terminate_sectors(&w.v, &m, &m.worker, &decls);
                o.op(format!("{step}: e{epoch} terminate sector {sn} -> {}", r.code));
                ms = after_msg(&w, inv.as_ref(), r.code.is_success(), &mut backing, &mut prev_vr, &mut o, &format!("step {step} terminate"), &ms);
            }
            _ => {
                // time: mostly towards the end of a verified sector's life (drop window) or a claim's term end
                let mut targets = vec![epoch + rng.range(1, 10) * DAY];
                for sn in &verified {
                    if let Some(s) = ms.sectors.get(sn) {
                        targets.push(s.expiration - policy.end_of_life_claim_drop_period + rng.range(-2, 2) * DAY);
                        targets.push(s.expiration - rng.range(1, 29) * DAY);
                    }
                }
                let to = (*rng.pick(&targets)).max(epoch + 1).min(epoch + 400 * DAY);
                o.op(format!("{step}: e{epoch} advance to {to}"));
                o.hash_mix(0x300);
                stop = !advance_light(&w, to, &mut o);
                if stop {
                    break;
                }
                ms = after_msg(&w, None, true, &mut backing, &mut prev_vr, &mut o, &format!("step {step} after advance"), &ms);
            }
        }
    }
    o.add("verified_sectors_onboarded", onboarded);
    o.add("extensions_accepted", extensions_ok);
    if stop {
        o.inconclusive.push("a cron tick or miner callback failed during a long advance (world damaged); history cut short".into());
    }
    o.nontrivial = onboarded >= 1 && extensions_ok >= 1;
    o.violations.retain(|x| x.signature.starts_with("C10/"));
    o
}

pub fn run(cfg: &Cfg) -> i32 {
    let tier = cfg.tier;
    // registry-side history facts (term_max monotone, removal only after expiry) over the DataCap workload
    let mut agg = super::c09::run_focus(cfg, "C10");
    agg.run_parallel("verified-sectors", tier.pick(16, 350), Duration::from_secs(tier.pick(300, 1700)), |i, rng| history(i, rng, tier, 0));
    // directed hostile input: two equal-sized claims with different maximum terms, extension declaring one of them twice
    agg.run_parallel("repeated-claim-declaration", tier.pick(6, 60), Duration::from_secs(tier.pick(200, 900)), |i, rng| history(i, rng, tier, 1));
    // directed hostile input: claims declared in one declaration, the sector named again without claims in a second one
    agg.run_parallel("split-declaration", tier.pick(6, 60), Duration::from_secs(tier.pick(200, 900)), |i, rng| history(i, rng, tier, 2));
    agg.require("verified_sectors_onboarded", 8);
    agg.require("extensions_accepted", 4);
    agg.require("claims_observed", 8);
    agg.finish(
        "exploration",
        "workload `verified-sectors`: one real 32 GiB miner (kept proven by the harness, plus the pledge whale), a verifier and a client; 26-40 composite ops: verified onboarding of a sector with 1-3 pieces of equal or different sizes (DataCap transfer creating allocations, pre-commit with the pieces' CommD, ProveCommitSectors3 with verified_allocation_key manifests so that the miner itself claims), ExtendSectorExpiration2 with maintain/drop declarations that are correct, partial, contain a repeated claim id, omit claims or name unknown ids, to expirations inside / at / beyond the backing claims' term_max, ExtendClaimTerms, RemoveExpiredClaims, TerminateSectors, time advances aimed at the final-30-day drop window and claim term ends; the shadow (sector -> backing claims) is updated only from observed successful ClaimAllocations and accepted drops; workload `datacap`: the C09 histories, judged for term_max monotonicity and removal-after-expiry. Non-trivial = at least one verified sector onboarded and one extension accepted",
        tier.pick(12, 200),
        &["MVM semantics; proofs accepted", "ProveReplicaUpdates3 onboarding is not yet exercised", "legacy (non-simple-QAP) sectors cannot be created through the current methods"],
        serde_json::json!({}),
    )
}
