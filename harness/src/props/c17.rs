//! C17 — EVM instructions compute what the Ethereum specification says.
//! Differential testing of the real EVM actor (deployed through init.Exec4 / invoked through
//! InvokeContract inside the MVM) against the independent reference interpreter (refevm.rs).
use crate::evm::{self, Deployed};
use crate::evmgen::*;
use crate::framework::*;
use crate::mvm::Mvm;
use crate::refevm::{self, Ctx as RefCtx, FailKind, Halt};
use crate::rng::Rng;
use crate::world::*;
use fil_actors_runtime::runtime::Policy;
use fvm_shared::address::Address;
use fvm_shared::bigint::Zero;
use fvm_shared::econ::TokenAmount;
use std::collections::BTreeMap;
use std::time::Duration;

pub const REF_STEP_LIMIT: u64 = 60_000;
pub const REF_MEM_LIMIT: usize = 1 << 20;

#[derive(Debug, PartialEq, Clone)]
pub enum Class {
    Return(Vec<u8>),
    Revert(Vec<u8>),
    Failure,
}

pub fn class_of_ref(h: &Halt) -> Option<Class> {
    match h {
        Halt::Return(d) => Some(Class::Return(d.clone())),
        Halt::Stop => Some(Class::Return(vec![])),
        Halt::Revert(d) => Some(Class::Revert(d.clone())),
        Halt::Failure(_) => Some(Class::Failure),
        Halt::Unsupported(..) | Halt::StepLimit => None,
    }
}

pub fn class_of_actor(r: &evm::CallResult) -> Class {
    if r.code.is_success() {
        Class::Return(r.data.clone())
    } else if r.code.value() == 33 {
        Class::Revert(r.data.clone())
    } else {
        Class::Failure
    }
}

/// deploy `runtime` code as a contract (EAM.CreateExternal from `from`)
pub fn deploy_runtime(v: &Mvm, from: &Address, runtime: &[u8]) -> Option<Deployed> {
    let init = evm::initcode_for(runtime);
    evm::deploy(v, from, &init, &TokenAmount::zero()).0.ok()
}

/// Should this program be run on the actor at all? (bounded in steps and memory according to the
/// reference; memory failures only when they concern the 32-bit limit)
pub fn screen(out: &refevm::Outcome) -> Result<(), &'static str> {
    match &out.halt {
        Halt::StepLimit => Err("reference step limit"),
        Halt::Unsupported(..) => Err("instruction outside the reference's families"),
        Halt::Failure(FailKind::MemoryLimit) if !out.mem_fail_beyond_u32 => Err("memory use above the harness cap but below 2^32"),
        _ => Ok(()),
    }
}

pub fn batch(index: u64, mut rng: Rng, tier: Tier) -> Outcome {
    let mut o = Outcome::default();
    let v = genesis(Policy::default());
    let accts = make_accounts(&v, 2, 17_000 + index, &fil(1000));
    let from = accts[0];
    // The interpreter may legally grow memory up to 4 GiB for one operand before it rejects another one
    // (e.g. MCOPY evaluates the source range first): cap the actor's memory through the guarded hook so
    // that 16 workers cannot exhaust the machine; a run stopped by the cap is not compared
    fil_actor_evm::interpreter::verif::reset(u64::MAX, 64 << 20);
    let nprog = tier.pick(160, 160); // larger worlds get disproportionately slower (state tree growth): more batches instead
    let mut last_structured: Option<Prog> = None;
    let mut agreed = 0u64;
    for pi in 0..nprog {
        let p = match rng.weighted(&[40, 30, 12, 4, 14]) {
            0 => gen_single_op(&mut rng),
            1 => {
                let p = gen_structured(&mut rng);
                last_structured = Some(p.clone());
                p
            }
            2 => match &last_structured {
                Some(b) => mutate(&mut rng, b),
                None => gen_structured(&mut rng),
            },
            3 => gen_stack_edge(&mut rng),
            _ => gen_mem_edge(&mut rng),
        };
        if p.code.first() == Some(&0xEF) || p.code.len() > 20_000 {
            continue;
        }
        // reference run(s) first: screening and expected results
        let mut storage: BTreeMap<[u8; 32], [u8; 32]> = BTreeMap::new();
        let mut expected = vec![];
        let mut skip = None;
        for cd in &p.calldatas {
            let ctx = RefCtx { code: p.code.clone(), calldata: cd.clone(), storage: storage.clone(), transient: BTreeMap::new(), step_limit: REF_STEP_LIMIT, mem_limit: REF_MEM_LIMIT };
            let out = refevm::run(&ctx);
            if let Err(why) = screen(&out) {
                skip = Some(why);
                break;
            }
            storage = out.storage.clone();
            expected.push(out);
        }
        if let Some(why) = skip {
            o.count(&format!("skipped: {why}"));
            continue;
        }
        o.count("programs_run");
        o.count(&format!("kind_{}", p.kind));
        let Some(c) = deploy_runtime(&v, &from, &p.code) else {
            o.violate("deploy", "C17/deployment_of_valid_runtime_failed", format!("batch {index} program {pi}: deployment failed for code {}", hex::encode(&p.code)));
            continue;
        };
        let caddr = Address::new_id(c.id);
        let mut keys_seen: Vec<[u8; 32]> = vec![];
        for (ci, (cd, exp)) in p.calldatas.iter().zip(expected.iter()).enumerate() {
            let (r, _) = evm::invoke(&v, &from, &caddr, cd, &TokenAmount::zero());
            o.count("invocations");
            if fil_actor_evm::interpreter::verif::take().watchdog {
                o.count("runs_stopped_by_the_64MiB_memory_cap_not_compared");
                continue;
            }
            if r.panicked {
                o.violate("total", "C18/panic", format!("program {} calldata {}: actor panicked", hex::encode(&p.code), hex::encode(cd)));
                v.panics.borrow_mut().clear();
                continue;
            }
            let want = class_of_ref(&exp.halt).unwrap();
            let got = class_of_actor(&r);
            for (i, seen) in exp.opcodes_seen.iter().enumerate() {
                if *seen {
                    o.seen("opcodes_executed", format!("{i:02x}"));
                }
            }
            let class_name = match &want {
                Class::Return(_) => "return",
                Class::Revert(_) => "revert",
                Class::Failure => "failure",
            };
            o.count(&format!("outcome_{class_name}"));
            if got != want {
                let first_op = p.code.iter().find(|b| PURE_OPS.iter().any(|(o, _)| o == *b)).copied().unwrap_or(0);
                o.violate(
                    "outcome_equal",
                    format!("C17/outcome_differs:{}", if p.kind == "single-op" { format!("op{first_op:02x}") } else { p.kind.to_string() }),
                    format!("program {} calldata#{ci} {}: actor {:?} (exit {}), specification {:?}", hex::encode(&p.code), hex::encode(cd), short(&got), r.code, short(&want)),
                );
                continue;
            }
            // final storage
            for k in exp.storage.keys() {
                if !keys_seen.contains(k) {
                    keys_seen.push(*k);
                }
            }
            for k in &keys_seen {
                let want_v = exp.storage.get(k).cloned().unwrap_or([0u8; 32]);
                let got_v = evm::storage_at(&v, &caddr, k).unwrap_or([0u8; 32]);
                o.count("storage_slots_compared");
                if got_v != want_v {
                    o.violate("storage_equal", format!("C17/storage_differs:{}", p.kind), format!("program {} calldata#{ci}: slot {} is {} on the actor, {} by the specification", hex::encode(&p.code), hex::encode(k), hex::encode(got_v), hex::encode(want_v)));
                }
            }
            agreed += 1;
            if exp.steps >= 5 {
                o.count("nontrivial_runs");
            }
        }
        o.hash_mix((p.code.len() as u64).wrapping_mul(31).wrapping_add(p.code.iter().take(8).fold(0u64, |a, b| a.wrapping_mul(257).wrapping_add(*b as u64))));
    }
    o.op(format!("batch {index}: {nprog} programs generated, {agreed} invocations agreed with the reference"));
    o.nontrivial = agreed >= 50;
    let _ = TokenAmount::zero();
    o
}

fn short(c: &Class) -> String {
    match c {
        Class::Return(d) => format!("return {}", hex::encode(&d[..d.len().min(48)])),
        Class::Revert(d) => format!("revert {}", hex::encode(&d[..d.len().min(48)])),
        Class::Failure => "failure".into(),
    }
}

pub fn run(cfg: &Cfg) -> i32 {
    let mut agg = Agg::new(cfg);
    let tier = cfg.tier;
    agg.run_parallel("programs", tier.pick(640, 60000), Duration::from_secs(tier.pick(200, 1500)), |i, rng| {
        let mut o = batch(i, rng, tier);
        o.violations.retain(|x| x.signature.starts_with("C17/"));
        o
    });
    let unseen: Vec<String> = {
        let seen = agg.sets.get("opcodes_executed").cloned().unwrap_or_default();
        let fam: Vec<u8> = vec![0x00, 0x01, 0x02, 0x03, 0x04, 0x05, 0x06, 0x07, 0x08, 0x09, 0x0a, 0x0b, 0x10, 0x11, 0x12, 0x13, 0x14, 0x15, 0x16, 0x17, 0x18, 0x19, 0x1a, 0x1b, 0x1c, 0x1d, 0x1e, 0x20, 0x35, 0x36, 0x37, 0x38, 0x39, 0x50, 0x51, 0x52, 0x53, 0x54, 0x55, 0x56, 0x57, 0x58, 0x59, 0x5b, 0x5c, 0x5d, 0x5e, 0x5f, 0x60, 0x7f, 0x80, 0x8f, 0x90, 0x9f, 0xf3, 0xfd, 0xfe];
        fam.iter().filter(|b| !seen.contains(&format!("{:02x}", b))).map(|b| format!("{b:02x}")).collect()
    };
    agg.finish(
        "exploration",
        "one evaluation = a batch of 160 programs in one world: single instructions over boundary operands (0, 1, 2^k, 2^k+-1, 2^255, 2^256-1, shift/byte/sign-extension edges, random), structured programs (forward/backward jumps, bounded loops, memory incl. MCOPY and zero-length accesses at huge offsets, storage and transient storage, calldata/code copy, KECCAK256, deep stacks, early halts), byte-level mutations of those, and stack-limit programs; every program is first run on the reference interpreter (screening out unbounded loops and mid-range memory), then deployed as a real contract and invoked with 1-2 calldatas; outcome class + data and every touched storage slot must agree. Non-trivial batch = at least 50 agreeing invocations",
        tier.pick(200, 5000),
        &["the reference interpreter (harness/src/refevm.rs, own Keccak, num-bigint arithmetic) encodes my reading of the Yellow Paper / EIP-3855/5656/1153/7939", "no gas model: FEVM does not meter EVM gas", "environment opcodes, calls, creates and logs are outside C17's families"],
        serde_json::json!({"family_opcodes_never_executed": unseen}),
    )
}

/// one differential run of a single program; returns a description of the difference, if any
pub fn diff_once(v: &Mvm, from: &Address, code: &[u8], cd: &[u8]) -> Result<Option<String>, String> {
    let ctx = RefCtx { code: code.to_vec(), calldata: cd.to_vec(), storage: BTreeMap::new(), transient: BTreeMap::new(), step_limit: REF_STEP_LIMIT, mem_limit: REF_MEM_LIMIT };
    let out = refevm::run(&ctx);
    screen(&out).map_err(|e| e.to_string())?;
    let c = deploy_runtime(v, from, code).ok_or("deploy failed")?;
    let caddr = Address::new_id(c.id);
    let (r, _) = evm::invoke(v, from, &caddr, cd, &TokenAmount::zero());
    let want = class_of_ref(&out.halt).unwrap();
    let got = class_of_actor(&r);
    if want != got {
        return Ok(Some(format!("actor {} (exit {}), specification {}", short(&got), r.code, short(&want))));
    }
    for (k, want_v) in &out.storage {
        let got_v = evm::storage_at(v, &caddr, k).unwrap_or([0u8; 32]);
        if got_v != *want_v {
            return Ok(Some(format!("slot {}: actor {}, specification {}", hex::encode(k), hex::encode(got_v), hex::encode(want_v))));
        }
    }
    Ok(None)
}

fn split_instructions(code: &[u8]) -> Vec<Vec<u8>> {
    let mut v = vec![];
    let mut i = 0;
    while i < code.len() {
        let op = code[i];
        let n = if (0x60..=0x7f).contains(&op) { (op - 0x5f) as usize } else { 0 };
        let end = (i + 1 + n).min(code.len());
        v.push(code[i..end].to_vec());
        i = end;
    }
    v
}

/// `vh evmdiff <code-hex> [calldata-hex]`: run one program on both, then shrink it instruction-wise
pub fn evmdiff(code_hex: &str, cd_hex: &str) -> i32 {
    let code = hex::decode(code_hex).expect("code hex");
    let cd = hex::decode(cd_hex).expect("calldata hex");
    let v = genesis(Policy::default());
    let accts = make_accounts(&v, 1, 17, &fil(1000));
    let from = accts[0];
    let first = diff_once(&v, &from, &code, &cd);
    println!("{first:?}");
    if !matches!(first, Ok(Some(_))) {
        return 0;
    }
    let mut ins = split_instructions(&code);
    loop {
        let mut progress = false;
        let mut i = 0;
        while i < ins.len() {
            let mut cand = ins.clone();
            cand.remove(i);
            let flat: Vec<u8> = cand.concat();
            if let Ok(Some(_)) = diff_once(&v, &from, &flat, &cd) {
                ins = cand;
                progress = true;
            } else {
                i += 1;
            }
        }
        if !progress {
            break;
        }
    }
    let flat: Vec<u8> = ins.concat();
    println!("shrunk: {}", ins.iter().map(hex::encode).collect::<Vec<_>>().join(" "));
    println!("{:?}", diff_once(&v, &from, &flat, &cd));
    1
}

/// `vh evmrun <code-hex> [calldata-hex]`: print both results
pub fn evmrun(code_hex: &str, cd_hex: &str) -> i32 {
    let code = hex::decode(code_hex).expect("code hex");
    let cd = hex::decode(cd_hex).expect("calldata hex");
    let v = genesis(Policy::default());
    let accts = make_accounts(&v, 1, 17, &fil(1000));
    let from = accts[0];
    let ctx = RefCtx { code: code.to_vec(), calldata: cd.to_vec(), storage: BTreeMap::new(), transient: BTreeMap::new(), step_limit: REF_STEP_LIMIT, mem_limit: REF_MEM_LIMIT };
    let out = refevm::run(&ctx);
    println!("reference: {:?} steps {}", out.halt, out.steps);
    for (k, x) in &out.storage {
        println!("  ref slot {} = {}", hex::encode(k), hex::encode(x));
    }
    let c = deploy_runtime(&v, &from, &code).expect("deploy");
    let caddr = Address::new_id(c.id);
    let (r, _) = evm::invoke(&v, &from, &caddr, &cd, &TokenAmount::zero());
    println!("actor: exit {} data {}", r.code, hex::encode(&r.data));
    for k in out.storage.keys() {
        println!("  actor slot {} = {:?}", hex::encode(k), evm::storage_at(&v, &caddr, k).map(hex::encode));
    }
    0
}
