//! C19 — EVM contract state stays coherent across nested, re-entrant and reverted calls.
//! All contracts run one "script interpreter" written in EVM assembly; a call tree is a script in
//! calldata (nested scripts for nested calls). A DSL-level model with a frame journal predicts the
//! report (every value read), final storage, balances, surviving events and liveness; all written
//! values are unique, so a read identifies the write it observed.
use crate::evm::{self, Asm, Deployed, op};
use crate::framework::*;
use crate::mvm::Mvm;
use crate::rng::Rng;
use crate::world::*;
use fil_actors_runtime::runtime::Policy;
use fvm_shared::address::Address;
use fvm_shared::bigint::Zero;
use fvm_shared::econ::TokenAmount;
use std::collections::BTreeMap;
use std::time::Duration;
use vm_api::VM;

// ---------------------------------------------------------------------------------------------
// the interpreter contract

const CUR: u64 = 0x40; // calldata cursor
const RP: u64 = 0x60; // report write pointer
const REPORT: u64 = 0x400;
const ARGS: u64 = 0x8000;

fn read_byte(a: &mut Asm) {
    a.push(CUR).op(op::MLOAD).op(op::DUP1).op(op::CALLDATALOAD).push(248).op(op::SHR).op(op::SWAP1).push(1).op(op::ADD).push(CUR).op(op::MSTORE);
}
fn read_word(a: &mut Asm) {
    a.push(CUR).op(op::MLOAD).op(op::DUP1).op(op::CALLDATALOAD).op(op::SWAP1).push(32).op(op::ADD).push(CUR).op(op::MSTORE);
}
fn read_addr(a: &mut Asm) {
    a.push(CUR).op(op::MLOAD).op(op::DUP1).op(op::CALLDATALOAD).push(96).op(op::SHR).op(op::SWAP1).push(20).op(op::ADD).push(CUR).op(op::MSTORE);
}
fn read_u16(a: &mut Asm) {
    a.push(CUR).op(op::MLOAD).op(op::DUP1).op(op::CALLDATALOAD).push(240).op(op::SHR).op(op::SWAP1).push(2).op(op::ADD).push(CUR).op(op::MSTORE);
}
/// [v] -> []  appends v to the report
fn report(a: &mut Asm) {
    a.push(RP).op(op::MLOAD).op(op::SWAP1).op(op::DUP1 + 1).op(op::MSTORE).push(32).op(op::ADD).push(RP).op(op::MSTORE);
}
/// [.., len] : copy `len` bytes of script at the cursor to ARGS and advance the cursor
fn copy_sub(a: &mut Asm) {
    a.op(op::DUP1).push(CUR).op(op::MLOAD).push(ARGS).op(op::CALLDATACOPY);
    a.op(op::DUP1).push(CUR).op(op::MLOAD).op(op::ADD).push(CUR).op(op::MSTORE);
}
fn append_returndata(a: &mut Asm) {
    a.op(op::RETURNDATASIZE).op(op::PUSH0).push(RP).op(op::MLOAD).op(op::RETURNDATACOPY);
    a.push(RP).op(op::MLOAD).op(op::RETURNDATASIZE).op(op::ADD).push(RP).op(op::MSTORE);
}

pub const C_END: u8 = 0;
pub const C_SSTORE: u8 = 1;
pub const C_SLOAD: u8 = 2;
pub const C_TSTORE: u8 = 3;
pub const C_TLOAD: u8 = 4;
pub const C_CALL: u8 = 5;
pub const C_STATIC: u8 = 6;
pub const C_DELEGATE: u8 = 7;
pub const C_REVERT: u8 = 8;
pub const C_SELFDESTRUCT: u8 = 9;
pub const C_LOG: u8 = 10;
pub const C_INVALID: u8 = 11;
pub const C_BALANCE: u8 = 12;
pub const C_CTX: u8 = 13;

pub fn interpreter_runtime() -> Vec<u8> {
    let mut a = Asm::new();
    a.op(op::PUSH0).push(CUR).op(op::MSTORE);
    a.push(REPORT).push(RP).op(op::MSTORE);
    a.label("loop");
    read_byte(&mut a); // [cmd]
    let cmds: [(u8, &str); 13] = [
        (C_SSTORE, "sstore"), (C_SLOAD, "sload"), (C_TSTORE, "tstore"), (C_TLOAD, "tload"), (C_CALL, "call"), (C_STATIC, "static"),
        (C_DELEGATE, "delegate"), (C_REVERT, "revert"), (C_SELFDESTRUCT, "sd"), (C_LOG, "log"), (C_INVALID, "invalid"), (C_BALANCE, "balance"), (C_CTX, "ctx"),
    ];
    for (c, l) in cmds {
        a.op(op::DUP1).push(c as u64).op(op::EQ).push_label(l).op(op::JUMPI);
    }
    // END (or anything else): return the report
    a.op(op::POP);
    a.push(REPORT).push(RP).op(op::MLOAD).op(op::SUB).push(REPORT).op(op::RETURN);

    a.label("sstore");
    a.op(op::POP);
    read_byte(&mut a);
    read_word(&mut a); // [k, v]
    a.op(op::SWAP1).op(op::SSTORE);
    a.push_label("loop").op(op::JUMP);

    a.label("sload");
    a.op(op::POP);
    read_byte(&mut a);
    a.op(op::SLOAD);
    report(&mut a);
    a.push_label("loop").op(op::JUMP);

    a.label("tstore");
    a.op(op::POP);
    read_byte(&mut a);
    read_word(&mut a);
    a.op(op::SWAP1).op(op::TSTORE);
    a.push_label("loop").op(op::JUMP);

    a.label("tload");
    a.op(op::POP);
    read_byte(&mut a);
    a.op(op::TLOAD);
    report(&mut a);
    a.push_label("loop").op(op::JUMP);

    a.label("call");
    a.op(op::POP);
    read_addr(&mut a);
    read_byte(&mut a);
    read_u16(&mut a); // [addr, value, len]
    copy_sub(&mut a);
    // CALL(gas, addr, value, ARGS, len, 0, 0)
    a.op(op::PUSH0).op(op::PUSH0).op(op::DUP1 + 2).push(ARGS).op(op::DUP1 + 5).op(op::DUP1 + 7).op(op::GAS).op(op::CALL);
    report(&mut a);
    append_returndata(&mut a);
    a.op(op::POP).op(op::POP).op(op::POP);
    a.push_label("loop").op(op::JUMP);

    for (l, o) in [("static", op::STATICCALL), ("delegate", op::DELEGATECALL)] {
        a.label(l);
        a.op(op::POP);
        read_addr(&mut a);
        read_u16(&mut a); // [addr, len]
        copy_sub(&mut a);
        // X(gas, addr, ARGS, len, 0, 0)
        a.op(op::PUSH0).op(op::PUSH0).op(op::DUP1 + 2).push(ARGS).op(op::DUP1 + 5).op(op::GAS).op(o);
        report(&mut a);
        append_returndata(&mut a);
        a.op(op::POP).op(op::POP);
        a.push_label("loop").op(op::JUMP);
    }

    a.label("revert");
    a.op(op::POP);
    a.push(REPORT).push(RP).op(op::MLOAD).op(op::SUB).push(REPORT).op(op::REVERT);

    a.label("sd");
    a.op(op::POP);
    read_addr(&mut a);
    a.op(op::SELFDESTRUCT);

    a.label("log");
    a.op(op::POP);
    read_byte(&mut a);
    a.op(op::PUSH0).op(op::PUSH0).op(op::LOG0 + 1);
    a.push_label("loop").op(op::JUMP);

    a.label("invalid");
    a.op(op::INVALID);

    a.label("balance");
    a.op(op::POP);
    a.op(op::SELFBALANCE);
    report(&mut a);
    a.push_label("loop").op(op::JUMP);

    // execution context: CALLVALUE, CALLER, ADDRESS (the report keeps the low 8 bytes of each)
    a.label("ctx");
    a.op(op::POP);
    for o in [0x34u8, 0x33, 0x30] {
        a.op(o);
        report(&mut a);
    }
    a.push_label("loop").op(op::JUMP);
    a.finish()
}

// ---------------------------------------------------------------------------------------------
// the DSL and its model

#[derive(Clone, Debug)]
pub enum Cmd {
    SStore(u8, u64),
    SLoad(u8),
    TStore(u8, u64),
    TLoad(u8),
    Call(usize, u8, Vec<Cmd>),
    Static(usize, Vec<Cmd>),
    Delegate(usize, Vec<Cmd>),
    Revert,
    SelfDestruct(usize),
    Log(u8),
    Invalid,
    Balance,
    /// report CALLVALUE, CALLER and ADDRESS of the running frame
    Ctx,
}

pub fn encode(cmds: &[Cmd], eth: &[[u8; 20]]) -> Vec<u8> {
    let mut b = vec![];
    for c in cmds {
        match c {
            Cmd::SStore(k, v) => {
                b.push(C_SSTORE);
                b.push(*k);
                b.extend_from_slice(&evm::word(*v));
            }
            Cmd::SLoad(k) => b.extend_from_slice(&[C_SLOAD, *k]),
            Cmd::TStore(k, v) => {
                b.push(C_TSTORE);
                b.push(*k);
                b.extend_from_slice(&evm::word(*v));
            }
            Cmd::TLoad(k) => b.extend_from_slice(&[C_TLOAD, *k]),
            Cmd::Call(t, val, sub) => {
                let s = encode(sub, eth);
                b.push(C_CALL);
                b.extend_from_slice(&eth[*t]);
                b.push(*val);
                b.extend_from_slice(&(s.len() as u16).to_be_bytes());
                b.extend_from_slice(&s);
            }
            Cmd::Static(t, sub) | Cmd::Delegate(t, sub) => {
                let s = encode(sub, eth);
                b.push(if matches!(c, Cmd::Static(..)) { C_STATIC } else { C_DELEGATE });
                b.extend_from_slice(&eth[*t]);
                b.extend_from_slice(&(s.len() as u16).to_be_bytes());
                b.extend_from_slice(&s);
            }
            Cmd::Revert => b.push(C_REVERT),
            Cmd::SelfDestruct(t) => {
                b.push(C_SELFDESTRUCT);
                b.extend_from_slice(&eth[*t]);
            }
            Cmd::Log(t) => b.extend_from_slice(&[C_LOG, *t]),
            Cmd::Invalid => b.push(C_INVALID),
            Cmd::Balance => b.push(C_BALANCE),
            Cmd::Ctx => b.push(C_CTX),
        }
    }
    b.push(C_END);
    b
}

#[derive(Clone, Debug, Default, PartialEq)]
pub struct WorldModel {
    pub storage: Vec<BTreeMap<u8, u64>>,
    pub transient: Vec<BTreeMap<u8, u64>>,
    pub balance: Vec<u64>,
    /// tombstoned in the current top-level message
    pub dying: Vec<bool>,
    /// dead since an earlier message
    pub dead: Vec<bool>,
    /// surviving events: (emitter, topic)
    pub events: Vec<(usize, u8)>,
    /// low 8 bytes of each contract's Ethereum address (what the report keeps of CALLER / ADDRESS)
    pub addr_low: Vec<u64>,
}

pub enum FrameEnd {
    Return(Vec<u64>),
    Revert(Vec<u64>),
    Fail,
}

/// Run a script as contract `me` (code = interpreter) in storage context `ctx`.
/// `ro`: static context. Returns how the frame ended; `w` is updated in place (journaled by the caller).
fn run_frame(w: &mut WorldModel, ctx: usize, cmds: &[Cmd], ro: bool, depth: usize, value: u64, sender: u64) -> FrameEnd {
    let mut rep: Vec<u64> = vec![];
    for c in cmds {
        match c {
            Cmd::SStore(k, v) => {
                if ro {
                    return FrameEnd::Fail;
                }
                if *v == 0 {
                    w.storage[ctx].remove(k);
                } else {
                    w.storage[ctx].insert(*k, *v);
                }
            }
            Cmd::SLoad(k) => rep.push(w.storage[ctx].get(k).copied().unwrap_or(0)),
            Cmd::TStore(k, v) => {
                if ro {
                    return FrameEnd::Fail;
                }
                if *v == 0 {
                    w.transient[ctx].remove(k);
                } else {
                    w.transient[ctx].insert(*k, *v);
                }
            }
            Cmd::TLoad(k) => rep.push(w.transient[ctx].get(k).copied().unwrap_or(0)),
            Cmd::Balance => rep.push(w.balance[ctx]),
            Cmd::Ctx => {
                rep.push(value);
                rep.push(sender);
                rep.push(w.addr_low[ctx]);
            }
            Cmd::Log(t) => {
                if ro {
                    return FrameEnd::Fail;
                }
                w.events.push((ctx, *t));
            }
            Cmd::Invalid => return FrameEnd::Fail,
            Cmd::Revert => return FrameEnd::Revert(rep),
            Cmd::SelfDestruct(b) => {
                if ro {
                    return FrameEnd::Fail;
                }
                let amt = w.balance[ctx];
                w.balance[ctx] -= amt;
                w.balance[*b] += amt;
                w.dying[ctx] = true;
                // the frame ends successfully with empty return data
                return FrameEnd::Return(vec![]);
            }
            Cmd::Call(t, val, sub) => {
                let val = *val as u64;
                if ro && val > 0 {
                    return FrameEnd::Fail;
                }
                let snapshot = w.clone();
                let ok_transfer = w.balance[ctx] >= val;
                let end = if !ok_transfer {
                    FrameEnd::Fail
                } else {
                    w.balance[ctx] -= val;
                    w.balance[*t] += val;
                    if w.dead[*t] { FrameEnd::Return(vec![]) } else { let me = w.addr_low[ctx]; run_frame(w, *t, sub, ro, depth + 1, val, me) }
                };
                match end {
                    FrameEnd::Return(r) => {
                        rep.push(1);
                        rep.extend(r);
                    }
                    FrameEnd::Revert(r) => {
                        *w = snapshot;
                        rep.push(0);
                        rep.extend(r);
                    }
                    FrameEnd::Fail => {
                        *w = snapshot;
                        rep.push(0);
                    }
                }
            }
            Cmd::Static(t, sub) => {
                let snapshot = w.clone();
                let end = if w.dead[*t] { FrameEnd::Return(vec![]) } else { let me = w.addr_low[ctx]; run_frame(w, *t, sub, true, depth + 1, 0, me) };
                match end {
                    FrameEnd::Return(r) => {
                        rep.push(1);
                        rep.extend(r);
                    }
                    FrameEnd::Revert(r) => {
                        *w = snapshot;
                        rep.push(0);
                        rep.extend(r);
                    }
                    FrameEnd::Fail => {
                        *w = snapshot;
                        rep.push(0);
                    }
                }
            }
            Cmd::Delegate(t, sub) => {
                // target's code (the same interpreter) against this context's storage, value and sender
                let snapshot = w.clone();
                let end = if w.dead[*t] { FrameEnd::Return(vec![]) } else { run_frame(w, ctx, sub, ro, depth + 1, value, sender) };
                match end {
                    FrameEnd::Return(r) => {
                        rep.push(1);
                        rep.extend(r);
                    }
                    FrameEnd::Revert(r) => {
                        *w = snapshot;
                        rep.push(0);
                        rep.extend(r);
                    }
                    FrameEnd::Fail => {
                        *w = snapshot;
                        rep.push(0);
                    }
                }
            }
        }
    }
    FrameEnd::Return(rep)
}

fn gen_script(rng: &mut Rng, n: usize, depth: usize, vctr: &mut u64, allow_sd: bool) -> Vec<Cmd> {
    let len = 1 + rng.below(if depth == 0 { 7 } else { 4 }) as usize;
    let mut v = vec![];
    // an inner activation sometimes clears every (transient) slot: the "everything zero" state is
    // persisted differently from a non-empty one
    if depth > 0 && rng.chance(1, 8) {
        let transient = rng.chance(2, 3);
        for k in 0..3u8 {
            v.push(if transient { Cmd::TStore(k, 0) } else { Cmd::SStore(k, 0) });
        }
    }
    for _ in 0..len {
        let k = rng.below(3) as u8;
        let c = match rng.weighted(&[22, 20, 8, 8, if depth < 5 { 22 } else { 0 }, if depth < 5 { 5 } else { 0 }, if depth < 5 { 9 } else { 0 }, 3, if allow_sd { 2 } else { 0 }, 4, 2, 4, 8]) {
            0 => {
                *vctr += 1;
                Cmd::SStore(k, if rng.chance(1, 6) { 0 } else { *vctr })
            }
            1 => Cmd::SLoad(k),
            2 => {
                *vctr += 1;
                Cmd::TStore(k, if rng.chance(1, 4) { 0 } else { *vctr })
            }
            3 => Cmd::TLoad(k),
            4 => Cmd::Call(rng.below(n as u64) as usize, if rng.chance(1, 4) { 1 + rng.below(3) as u8 } else { 0 }, gen_script(rng, n, depth + 1, vctr, allow_sd)),
            5 => Cmd::Static(rng.below(n as u64) as usize, gen_script(rng, n, depth + 1, vctr, allow_sd)),
            6 => Cmd::Delegate(rng.below(n as u64) as usize, gen_script(rng, n, depth + 1, vctr, allow_sd)),
            7 => Cmd::Revert,
            8 => Cmd::SelfDestruct(rng.below(n as u64) as usize),
            9 => Cmd::Log(rng.below(200) as u8),
            10 => Cmd::Invalid,
            11 => Cmd::Balance,
            _ => Cmd::Ctx,
        };
        let end = matches!(c, Cmd::Revert | Cmd::Invalid | Cmd::SelfDestruct(_));
        v.push(c);
        if end {
            break;
        }
    }
    v
}

fn shape(cmds: &[Cmd]) -> String {
    let mut s = String::new();
    for c in cmds {
        match c {
            Cmd::Call(t, _, sub) => s.push_str(&format!("C{t}({})", shape(sub))),
            Cmd::Static(t, sub) => s.push_str(&format!("S{t}({})", shape(sub))),
            Cmd::Delegate(t, sub) => s.push_str(&format!("D{t}({})", shape(sub))),
            Cmd::Revert => s.push('r'),
            Cmd::Invalid => s.push('x'),
            Cmd::SelfDestruct(_) => s.push('k'),
            Cmd::SStore(..) => s.push('w'),
            Cmd::TStore(..) => s.push('t'),
            _ => {}
        }
    }
    s
}

pub fn system(index: u64, mut rng: Rng, tier: Tier) -> Outcome {
    let mut o = Outcome::default();
    let v: Mvm = genesis(Policy::default());
    let accts = make_accounts(&v, 2, 19_000 + index, &fil(1000));
    let from = accts[0];
    let n = 2 + rng.below(3) as usize;
    let rt = interpreter_runtime();
    let mut cs: Vec<Deployed> = vec![];
    for _ in 0..n {
        let c = super::c17::deploy_runtime(&v, &from, &rt).expect("deploy interpreter");
        cs.push(c);
    }
    let eth: Vec<[u8; 20]> = cs.iter().map(|c| c.eth).collect();
    let mut w = WorldModel { storage: vec![BTreeMap::new(); n], transient: vec![BTreeMap::new(); n], balance: vec![0; n], dying: vec![false; n], dead: vec![false; n], events: vec![], addr_low: eth.iter().map(|e| u64::from_be_bytes(e[12..].try_into().unwrap())).collect() };
    for (i, c) in cs.iter().enumerate() {
        let amt = 1000 + 100 * i as u64;
        call0(&v, &from, &Address::new_id(c.id), &atto(amt), fvm_shared::METHOD_SEND);
        w.balance[i] = amt;
    }
    let allow_sd = rng.chance(1, 3);
    let msgs = 3 + rng.below(tier.pick(6, 8)) as usize;
    let mut vctr = 1000 * (index + 1);
    let mut reads_checked = 0u64;
    for mi in 0..msgs {
        let entry = rng.below(n as u64) as usize;
        let script = gen_script(&mut rng, n, 0, &mut vctr, allow_sd);
        let cd = encode(&script, &eth);
        if cd.len() > 20_000 {
            continue;
        }
        let val = if rng.chance(1, 5) { 1 + rng.below(5) } else { 0 };
        // ---- model
        let before = w.clone();
        for t in w.transient.iter_mut() {
            t.clear();
        }
        w.events.clear();
        let pre_exec = w.clone();
        let end = if w.dead[entry] {
            w.balance[entry] += val;
            FrameEnd::Return(vec![])
        } else {
            w.balance[entry] += val;
            run_frame(&mut w, entry, &script, false, 0, val, from.id().unwrap())
        };
        let (want_ok, want_rep): (u8, Vec<u64>) = match end {
            FrameEnd::Return(r) => (0, r),
            FrameEnd::Revert(r) => {
                w = pre_exec.clone();
                (1, r)
            }
            FrameEnd::Fail => {
                w = pre_exec.clone();
                (2, vec![])
            }
        };
        // end of message: tombstoned contracts are dead from now on, transient storage is gone
        for i in 0..n {
            if w.dying[i] {
                w.dead[i] = true;
                w.dying[i] = false;
                w.storage[i].clear();
            }
        }
        let _ = before;
        // ---- real actors
        let (r, inv) = evm::invoke(&v, &from, &Address::new_id(cs[entry].id), &cd, &atto(val));
        let sh = shape(&script);
        o.op(format!("msg {mi}: entry {entry} value {val} script {sh} -> exit {} ({} report words)", r.code, r.data.len() / 32));
        o.seen("call_shapes", sh.clone());
        o.hash_str(&sh);
        o.count("messages");
        if r.panicked {
            o.violate("total", "C18/panic", format!("system {index} msg {mi}: panic"));
            v.panics.borrow_mut().clear();
            break;
        }
        let got_class = if r.code.is_success() { 0 } else if r.code.value() == 33 { 1 } else { 2 };
        let got_rep: Vec<u64> = r.data.chunks(32).map(|c| { let mut b = [0u8; 8]; if c.len() == 32 { b.copy_from_slice(&c[24..]); } u64::from_be_bytes(b) }).collect();
        let what = format!("system {index} msg {mi} (entry contract {entry}, script {})", script_text(&script));
        if got_class != want_ok {
            o.violate("outcome", "C19/outcome_class_differs", format!("{what}: actor ended with exit {} but the model expects {}", r.code, ["return", "revert", "failure"][want_ok as usize]));
            break;
        }
        if got_class != 2 {
            reads_checked += want_rep.len() as u64;
            if got_rep != want_rep {
                let pos = got_rep.iter().zip(want_rep.iter()).position(|(a, b)| a != b).unwrap_or(got_rep.len().min(want_rep.len()));
                o.violate("reads_see_right_writes", "C19/report_differs", format!("{what}: report differs at word {pos}: actor {:?} model {:?}", got_rep.get(pos), want_rep.get(pos)));
                break;
            }
        }
        // final storage, balances, liveness, events
        for i in 0..n {
            let a = Address::new_id(cs[i].id);
            for k in 0..3u8 {
                let got = evm::storage_at(&v, &a, &evm::word(k as u64)).unwrap_or([0; 32]);
                let want = evm::word(w.storage[i].get(&k).copied().unwrap_or(0));
                o.count("storage_slots_compared");
                if got != want {
                    o.violate("final_storage", "C19/final_storage_differs", format!("{what}: contract {i} slot {k}: actor {} model {}", hex::encode(&got[24..]), hex::encode(&want[24..])));
                }
            }
            let bal = v.balance(&a);
            if bal != atto(w.balance[i]) {
                o.violate("balances", "C19/balance_differs", format!("{what}: contract {i} balance {bal} model {}", w.balance[i]));
            }
            let st = evm::evm_state(&v, cs[i].id);
            let tomb = st.as_ref().is_some_and(|s| s.tombstone.is_some());
            if tomb != w.dead[i] {
                o.violate("selfdestruct", "C19/liveness_differs", format!("{what}: contract {i} tombstone {tomb} model dead {}", w.dead[i]));
            }
        }
        if let Some(inv) = &inv {
            // the invocation record keeps events per invocation, not interleaved with sub-calls:
            // compare the surviving events as a multiset of (emitter, topic)
            let mut got_ev: Vec<(u64, u8)> = vec![];
            inv.walk(&mut |i, _, anc| {
                if anc && i.ok() {
                    for e in &i.events {
                        let topic = e.event.entries.iter().find(|x| x.key == "t1").and_then(|x| x.value.last().copied()).unwrap_or(255);
                        got_ev.push((e.emitter, topic));
                    }
                }
            });
            let mut want_ev: Vec<(u64, u8)> = w.events.iter().map(|(c, t)| (cs[*c].id, *t as u8)).collect();
            got_ev.sort();
            want_ev.sort();
            o.count("event_lists_compared");
            o.add("events_compared", want_ev.len() as u64);
            if got_class == 0 && got_ev != want_ev {
                o.violate("events", "C19/surviving_events_differ", format!("{what}: events (emitter, topic) {:?}, model {:?}", got_ev, want_ev));
            }
            #[cfg(feature = "hooks")]
            {
                let h = fil_actor_evm::interpreter::verif::take();
                o.seen("flush_reload_patterns", format!("{}:f{}r{}", shape(&script).len().min(12), h.flushes.min(9), h.reloads.min(9)));
            }
        }
    }
    o.add("reads_checked", reads_checked);
    o.nontrivial = reads_checked >= 3;
    o
}

fn script_text(cmds: &[Cmd]) -> String {
    let mut s = vec![];
    for c in cmds {
        s.push(match c {
            Cmd::SStore(k, v) => format!("s[{k}]={v}"),
            Cmd::SLoad(k) => format!("read s[{k}]"),
            Cmd::TStore(k, v) => format!("t[{k}]={v}"),
            Cmd::TLoad(k) => format!("read t[{k}]"),
            Cmd::Call(t, v, sub) => format!("call {t} value {v} {{{}}}", script_text(sub)),
            Cmd::Static(t, sub) => format!("staticcall {t} {{{}}}", script_text(sub)),
            Cmd::Delegate(t, sub) => format!("delegatecall {t} {{{}}}", script_text(sub)),
            Cmd::Revert => "revert".into(),
            Cmd::SelfDestruct(b) => format!("selfdestruct->{b}"),
            Cmd::Log(t) => format!("log {t}"),
            Cmd::Invalid => "invalid".into(),
            Cmd::Balance => "read balance".into(),
            Cmd::Ctx => "read callvalue/caller/address".into(),
        });
    }
    s.join("; ")
}

pub fn run(cfg: &Cfg) -> i32 {
    let mut agg = Agg::new(cfg);
    let tier = cfg.tier;
    agg.run_parallel("systems", tier.pick(8000, 400_000), Duration::from_secs(tier.pick(200, 1700)), |i, rng| {
        let mut o = system(i, rng, tier);
        o.violations.retain(|x| x.signature.starts_with("C19/"));
        o
    });
    agg.finish(
        "exploration",
        "one evaluation = a system of 2-4 deployed interpreter contracts driven by 3-10 top-level messages, each a generated script (call tree up to depth 6 of CALL with/without value, STATICCALL, DELEGATECALL, re-entrant self/mutual calls; SSTORE/TSTORE of unique values and SLOAD/TLOAD reads before and after each call; REVERT / INVALID at chosen depths; LOG; SELFDESTRUCT in a third of the systems; balance reads); the DSL model with a frame journal predicts the flattened report of every read, the outcome class, final storage of every contract, balances, tombstones and surviving events; non-trivial = at least 3 reads checked; distinct by call-shape hash",
        tier.pick(300, 20_000),
        &["the interpreter contract (hand-assembled EVM code in c19.rs) implements the DSL faithfully: checked by the agreement itself on the unchanged tree", "CREATE/CREATE2 inside call trees are exercised in C20, not here", "FEVM semantics assumed by the model: a failing frame returns success=0 with empty return data; SELFDESTRUCT ends the frame successfully with empty return data and moves the balance at once"],
        serde_json::json!({}),
    )
}
