//! Generated miner histories shared by C01–C05 (and reused by C14/C15): real miners created through
//! power.CreateMiner, onboarding, PoSt with skips, faults, recoveries, terminations, extensions,
//! compaction, rewards, withdrawals, with the cron ticking at every epoch that has scheduled work
//! (or at every epoch in dense stretches). All monitors run after every message and tick; each
//! check keeps only its own property's violations.
use crate::chain::*;
use crate::framework::*;
use crate::market::DAY;
use crate::miner::*;
use crate::minerops::*;
use crate::mvm::Inv;
use crate::rng::Rng;
use crate::world::*;
use fvm_shared::METHOD_SEND;
use fvm_shared::address::Address;
use fvm_shared::bigint::Zero;
use fvm_shared::clock::ChainEpoch;
use fvm_shared::econ::TokenAmount;
use std::collections::{BTreeMap, BTreeSet};
use vm_api::VM;

pub struct Monitors {
    pub cons: Conservation,
    pub shadow: PowerShadow,
    pub cron: CronMonitor,
    pub deposits: TokenAmount,
    /// sector numbers that were pre-committed or on chain once and later in neither
    pub gone: BTreeSet<(u64, u64)>,
    pub ever: BTreeSet<(u64, u64)>,
    pub allocated_prev: BTreeMap<u64, Bits>,
    pub fault_budget: u32,
    pub fees: crate::fees::Fees,
}

impl Monitors {
    pub fn new(w: &MinerWorld) -> Self {
        Monitors {
            cons: Conservation::new(&w.v),
            shadow: PowerShadow::default(),
            cron: CronMonitor::new(),
            deposits: w.miners.iter().map(|m| m.creation_deposit.clone()).sum(),
            gone: BTreeSet::new(),
            ever: BTreeSet::new(),
            allocated_prev: BTreeMap::new(),
            fault_budget: 0,
            fees: {
                let mut f = crate::fees::Fees::default();
                for m in w.miners.iter().filter(|m| !m.whale) {
                    f.note_creation(m.addr.id().unwrap(), w.v.epoch(), &m.creation_deposit);
                }
                f
            },
        }
    }

    /// everything that is checked at a quiescent point
    pub fn quiescent(&mut self, w: &MinerWorld, snaps: &[MinerSnap], inv: Option<&Inv>, after_tick: Option<ChainEpoch>, o: &mut Outcome, when: &str) {
        let policy = &w.v.policy;
        let lite = whale_lite(w);
        self.cons.check(&w.v, inv, snaps, &lite, o, when);
        for m in snaps {
            check_bookkeeping(policy, m, o, when);
            check_ledgers(m, o, when);
            self.fees.check_vesting(m, w.v.epoch(), after_tick.is_some() && m.deadline_cron_active && self.cron.callback_seen.contains(&m.id), o, when);
            // sector-number history
            let prev = self.allocated_prev.entry(m.id).or_default();
            if !prev.is_subset(&m.allocated) {
                o.violate("allocation_monotone", "C04/allocated_numbers_shrank", format!("{when}: miner {} allocated-number set lost {:?}", m.id, prev.difference(&m.allocated).collect::<Vec<_>>()));
            }
            *prev = m.allocated.clone();
            let present: BTreeSet<u64> = m.sectors.keys().chain(m.precommits.keys()).cloned().collect();
            for n in &present {
                if self.gone.contains(&(m.id, *n)) {
                    o.violate("allocation_once", "C04/sector_number_reused", format!("{when}: miner {} sector number {n} is in use again after it had left pre-commit / the sector table", m.id));
                }
                self.ever.insert((m.id, *n));
            }
            let left: Vec<(u64, u64)> = self.ever.iter().filter(|(mi, n)| *mi == m.id && !present.contains(n)).cloned().collect();
            self.gone.extend(left);
        }
        check_power(&w.v, policy, snaps, &self.shadow, o, when);
        check_network_pledge(&w.v, snaps, &lite, &self.deposits, o, when);
        if let Some(inv) = inv {
            check_pledge_update_failures(&w.v, inv, &self.deposits, o, when);
        }
        self.cron.check_schedule(w, snaps, after_tick, o, when);
        if let Some(at) = after_tick {
            check_progress(policy, snaps, at, o);
        }
        if !w.v.panics.borrow().is_empty() {
            let p = w.v.panics.borrow()[0].clone();
            o.violate("no_panic", "C05/panic", format!("{when}: panic in message to {} method {}: {}", p.to, p.method, p.message));
            w.v.panics.borrow_mut().clear();
        }
    }

    /// shadow update for an accepted PoSt (from the pre-call snapshot)
    pub fn on_post_accepted(&mut self, pre: &MinerSnap, deadline: u64, parts: &[(u64, Vec<u64>)]) {
        let Some(d) = pre.deadlines.get(deadline as usize) else { return };
        for (pi, skipped) in parts {
            let Some(p) = d.partitions.get(*pi as usize) else { continue };
            let skipped: BTreeSet<u64> = skipped.iter().cloned().collect();
            for s in p.live() {
                let key = (pre.id, s);
                if skipped.contains(&s) {
                    self.shadow.faulty.insert(key);
                    continue;
                }
                let was_faulty = p.faults.contains(&s);
                if !was_faulty || p.recoveries.contains(&s) {
                    self.shadow.proven.insert(key);
                    self.shadow.faulty.remove(&key);
                }
            }
        }
    }

    /// shadow update for the deadline-end callback of a miner (from the pre-tick snapshot)
    pub fn on_deadline_end(&mut self, pre: &MinerSnap, deadline: u64) {
        let Some(d) = pre.deadlines.get(deadline as usize) else { return };
        for (pi, p) in d.partitions.iter().enumerate() {
            if !d.partitions_posted.contains(&(pi as u64)) {
                for s in p.live() {
                    self.shadow.faulty.insert((pre.id, s));
                }
            }
        }
    }

    pub fn on_faults_declared(&mut self, pre: &MinerSnap, decls: &[(u64, u64, Vec<u64>)]) {
        let loc = locations(pre);
        for (_, _, ss) in decls {
            for s in ss {
                if loc.contains_key(s) {
                    self.shadow.faulty.insert((pre.id, *s));
                }
            }
        }
    }
}


/// C05 fault enumeration: from the snapshot taken before a tick, re-run the tick once per nested
/// send site seen in the real run, with that send failing; the tick as a whole, the other cron
/// entry and every other miner's callback must be unaffected.
pub fn enumerate_tick_faults(w: &MinerWorld, before: &crate::mvm::Snapshot, real: &Inv, at: ChainEpoch, o: &mut Outcome) {
    use fil_actors_runtime::{CRON_ACTOR_ID, STORAGE_POWER_ACTOR_ID};
    // sites: (from, to, method, occurrence index among equal triples), with the miner whose callback subtree contains it
    let mut sites: Vec<(u64, u64, u64, u64, Option<u64>, Option<u64>)> = vec![];
    let mut counts: BTreeMap<(u64, u64, u64), u64> = BTreeMap::new();
    fn collect(i: &Inv, depth: usize, owner: Option<u64>, entry: Option<u64>, counts: &mut BTreeMap<(u64, u64, u64), u64>, sites: &mut Vec<(u64, u64, u64, u64, Option<u64>, Option<u64>)>) {
        let mut owner = owner;
        let mut entry = entry;
        if depth >= 1 {
            let to = i.to.id().unwrap_or(u64::MAX);
            if depth == 1 {
                entry = Some(to);
            }
            let n = counts.entry((i.from, to, i.method)).or_insert(0);
            if i.from == fil_actors_runtime::STORAGE_POWER_ACTOR_ID && i.method == fil_actor_miner::Method::OnDeferredCronEvent as u64 {
                owner = Some(to);
            }
            sites.push((i.from, to, i.method, *n, owner, entry));
            *n += 1;
        }
        for s in &i.subs {
            collect(s, depth + 1, owner, entry, counts, sites);
        }
    }
    collect(real, 0, None, None, &mut counts, &mut sites);
    let after = w.v.snapshot();
    let claims_before = { w.v.restore(before); power_claims(&w.v).0 };
    for (from, to, method, nth, owner, entry) in sites {
        w.v.restore(before);
        w.v.clear_faults();
        w.v.fault_rules.borrow_mut().push(crate::mvm::FaultRule::new(Some(from), Some(to), Some(method), nth, fvm_shared::error::ExitCode::SYS_OUT_OF_GAS));
        let (r, inv) = w.v.tick();
        w.v.clear_faults();
        o.count("tick_fault_reruns");
        o.seen("fault_sites", format!("{}->{}:{}", crate::chain::actor_type_name(&w.v, from), crate::chain::actor_type_name(&w.v, to), method));
        let Some(inv) = inv else {
            o.violate("no_panic", "C05/panic_under_fault", format!("tick at {at} with send {from}->{to}:{method}#{nth} failing: panic {}", r.message));
            continue;
        };
        let mut fired = false;
        inv.walk(&mut |i, _, _| fired |= i.injected);
        if !fired {
            o.count("tick_fault_not_reached");
            continue;
        }
        if !r.code.is_success() {
            o.violate("cron_succeeds", "C05/cron_tick_failed_under_fault", format!("tick at {at} with send {from}->{to}:{method}#{nth} failing: cron.EpochTick exited with {}", r.code));
        }
        inv.walk(&mut |i, depth, _| {
            if i.injected {
                return;
            }
            let ito = i.to.id().unwrap_or(u64::MAX);
            if i.from == CRON_ACTOR_ID && depth == 1 && !i.ok() && Some(ito) != entry {
                o.violate("cron_succeeds", "C05/cron_entry_failed_under_fault", format!("tick at {at} with send {from}->{to}:{method}#{nth} failing: cron entry to {ito} exited with {}", i.exit));
            }
            if i.from == STORAGE_POWER_ACTOR_ID && i.method == fil_actor_miner::Method::OnDeferredCronEvent as u64 && !i.ok() && Some(ito) != owner {
                o.violate("callback_succeeds", "C05/other_miner_callback_failed_under_fault", format!("tick at {at} with send {from}->{to}:{method}#{nth} failing: callback of unrelated miner {ito} exited with {}", i.exit));
            }
            if i.exit.value() == crate::chain::ERR_BALANCE_INVARIANTS_BROKEN {
                o.violate("err1000", "C05/balance_invariants_broken_reported", format!("tick at {at} under fault: {} -> {ito} method {} exited with 1000", i.from, i.method));
            }
        });
        let claims_after = power_claims(&w.v).0;
        for id in claims_before.keys() {
            if !claims_after.contains_key(id) && Some(*id) != owner {
                o.violate("claim_kept", "C05/claim_lost_under_unrelated_fault", format!("tick at {at} with send {from}->{to}:{method}#{nth} failing: miner {id} lost its claim"));
            }
        }
        if !w.v.panics.borrow().is_empty() {
            let p = w.v.panics.borrow()[0].clone();
            o.violate("no_panic", "C05/panic_under_fault", format!("tick at {at} with send {from}->{to}:{method}#{nth} failing: {}", p.message));
            w.v.panics.borrow_mut().clear();
        }
    }
    w.v.restore(&after);
}

#[derive(Clone, Copy, Debug, PartialEq)]
pub enum Variant {
    /// miners exactly as power.CreateMiner leaves them, nothing else in the world
    AsCreated,
    /// plus a large 32 GiB "whale" miner whose pledge makes the network total behave as on a real network
    WithWhale,
}

pub struct HistCfg {
    pub variant: Variant,
    pub nops: usize,
    pub dense: bool,
    pub min_power: u64,
    pub fault_prob: u32,
    /// C05: re-run ticks from a snapshot with each nested send site failing in turn
    pub enumerate_faults: bool,
    /// after the ops, run on for this many days (C14: whole vesting schedules)
    pub tail_days: i64,
}

/// run the cron up to `to`, running all monitors after every tick
pub fn advance_monitored(w: &MinerWorld, mon: &mut Monitors, to: ChainEpoch, dense: bool, o: &mut Outcome, stop: &mut bool) {
    while w.v.epoch() < to && !*stop {
        // one deadline (or less) at a time so that whale maintenance can be interleaved
        let chunk_to = std::cmp::min(to, w.v.epoch() + 29);
        {
            let mut accepted: Vec<(MinerSnap, u64, Vec<(u64, Vec<u64>)>)> = vec![];
            maintenance(w, o, &mut |pre, d, parts| accepted.push((pre.clone(), d, parts.to_vec())));
            for (pre, d, parts) in accepted {
                mon.on_post_accepted(&pre, d, &parts);
            }
        }
        let mut pending: Vec<(ChainEpoch, Inv, bool, Vec<MinerSnap>, Claims, Claims, Vec<MinerSnap>)> = vec![];
        let mut pre = snaps(w);
        let mut claims_pre = power_claims(&w.v).0;
        if mon.fault_budget > 0 && !dense {
            // run this chunk tick by tick so that each tick can be re-run from its own snapshot
            while w.v.epoch() < chunk_to && mon.fault_budget > 0 && !*stop {
                let next = crate::market::next_work_epoch(&w.v).filter(|e| *e < chunk_to);
                let Some(e) = next else { break };
                if e > w.v.epoch() {
                    w.v.set_epoch(e);
                }
                let before = w.v.snapshot();
                let (r, inv) = w.v.tick();
                if let Some(inv) = inv {
                    let has_cb = { let mut c = false; inv.walk(&mut |i, _, _| c |= i.method == fil_actor_miner::Method::OnDeferredCronEvent as u64 && i.from == fil_actors_runtime::STORAGE_POWER_ACTOR_ID); c };
                    let claims_after = power_claims(&w.v).0;
                    mon.cron.check_tick(&w.v, e, &inv, r.code.is_success(), &claims_pre, &claims_after, &mon.deposits, o);
                    mon.cons.observe(&inv, o, &format!("tick at {e}"));
                    if o.violations.iter().any(|v| v.signature.contains("/pledge-total-underflow-creation-deposit")) {
                        *stop = true;
                        o.count("histories_stopped_by_creation_deposit_underflow");
                        break;
                    }
                    if has_cb && r.code.is_success() {
                        mon.fault_budget -= 1;
                        enumerate_tick_faults(w, &before, &inv, e, o);
                    }
                    for ps in &pre {
                        if ps.deadline_cron_active {
                            let d = deadline_at(&w.v.policy, ps.proving_period_start, e);
                            let mut ran = false;
                            inv.walk(&mut |i, _, anc| ran |= anc && i.ok() && i.method == fil_actor_miner::Method::OnDeferredCronEvent as u64 && i.to.id().ok() == Some(ps.id));
                            if ran && d.last() == e {
                                mon.on_deadline_end(ps, d.index);
                            }
                        }
                    }
                    claims_pre = claims_after;
                    let post = snaps(w);
                    mon.quiescent(w, &post, None, Some(e), o, &format!("tick at {e}"));
                    pre = post;
                }
            }
            if *stop {
                break;
            }
        }
        advance_miners(&w.v, chunk_to, dense, &mut |at, inv, ok| {
            let claims_after = power_claims(&w.v).0;
            let post_snaps = snaps(w);
            pending.push((at, inv.clone(), ok, std::mem::take(&mut pre), std::mem::take(&mut claims_pre), claims_after.clone(), post_snaps.clone()));
            pre = post_snaps;
            claims_pre = claims_after;
        });
        // evaluate ticks (snapshots after each tick are the `pre` of the next; re-snapshot at the end)
        let n = pending.len();
        for (k, (at, inv, ok, pre_snaps, claims_before, claims_after, post_snaps)) in pending.into_iter().enumerate() {
            mon.cron.check_tick(&w.v, at, &inv, ok, &claims_before, &claims_after, &mon.deposits, o);
            if std::env::var("VH_TICKLOG").is_ok() {
                let mut line = format!("    tick at {at}:");
                inv.walk(&mut |i, _, _| {
                    if i.method == fil_actor_miner::Method::OnDeferredCronEvent as u64 {
                        line.push_str(&format!(" cb({})={}", i.to, i.exit));
                    }
                });
                o.op(line);
            }
            if o.violations.iter().any(|v| v.signature.contains("/pledge-total-underflow-creation-deposit")) {
                // the world is damaged by the known creation-deposit defect from here on (the power
                // actor has dropped the miner's claim); nothing after this point is judged
                *stop = true;
                o.count("histories_stopped_by_creation_deposit_underflow");
                break;
            }
            // deadline-end shadow updates from successful proving-deadline callbacks
            inv.walk(&mut |i, _, anc| {
                if anc && i.ok() && i.method == fil_actor_miner::Method::OnDeferredCronEvent as u64 {
                    if let Some(ps) = pre_snaps.iter().find(|s| Some(s.id) == i.to.id().ok())
                        && ps.deadline_cron_active
                    {
                        let d = deadline_at(&w.v.policy, ps.proving_period_start, at);
                        if d.last() == at {
                            mon.on_deadline_end(ps, d.index);
                            if let Some(pp) = post_snaps.iter().find(|s| s.id == ps.id) {
                                mon.fees.on_deadline_callback(ps, pp, i, d.index, o, &format!("tick at {at}"));
                            }
                        }
                    }
                }
            });
            if k + 1 == n {
                let post = snaps(w);
                mon.quiescent(w, &post, Some(&inv), Some(at), o, &format!("tick at {at}"));
            } else {
                mon.cons.observe(&inv, o, &format!("tick at {at}"));
                o.count("ticks_between_snapshots");
            }
            if o.violations.iter().any(|v| v.signature.contains("/pledge-total-underflow-creation-deposit")) {
                // the world is damaged by the known creation-deposit defect from here on
                *stop = true;
            }
        }
    }
}

fn n_real0(w: &MinerWorld) -> usize {
    w.miners.iter().filter(|m| !m.whale).count()
}

pub fn history(index: u64, mut rng: Rng, cfg: &HistCfg, focus: &str) -> Outcome {
    let mut o = Outcome::default();
    let kinds: Vec<bool> = match rng.below(3) {
        0 => vec![true],
        1 => vec![true, false],
        _ => vec![true, true],
    };
    let whale = if cfg.variant == Variant::WithWhale { 80 } else { 0 };
    let mut w = miner_world(3_000_000 + index, miner_policy(cfg.min_power), &kinds, whale, 200 + rng.range(0, 3000));
    if cfg.fault_prob > 0 {
        w.v.random_faults.replace(Some((index * 7919 + 13, cfg.fault_prob)));
    }
    // half of the histories have a competent operator: the harness keeps the miners' sectors proven and
    // recovers faults, on top of the explicit (hostile) ops
    if rng.chance(1, 2) {
        for m in w.miners.iter_mut().filter(|m| !m.whale) {
            m.auto_post = true;
        }
    }
    if rng.chance(1, 2) {
        for mi in 0..n_real0(&w) {
            let m = w.miners[mi].clone();
            let fav = (m.addr.id().unwrap() * 7 + 5) % 48;
            for _ in 0..2 + rng.below(2) {
                let k = 2 + rng.below(2);
                let nums: Vec<u64> = (0..k).map(|i| w.miners[mi].next_sector + i).collect();
                w.miners[mi].next_sector += k;
                let exp = w.v.epoch() + 200 * DAY + rng.range(0, 50) * DAY;
                let _ = prove_commit_ni(&w.v, &m, &m.worker, &nums, exp, fav);
            }
        }
    }
    // a verifier and a client with DataCap: some sectors carry a verified piece (QA power = 10 x raw)
    let vclient = w.others[1];
    {
        // (set up without injected send failures)
        let faults = w.v.random_faults.replace(None);
        use fil_actor_verifreg::{AddVerifiedClientParams, Method as VrM, VerifierParams};
        use fvm_shared::bigint::BigInt;
        let (_, _, ok) = crate::verif::via_root(&w.v, VrM::AddVerifier, &VerifierParams { address: w.others[0], allowance: BigInt::from(1u64 << 50) });
        let (r, _) = call(&w.v, &w.others[0], &fil_actors_runtime::VERIFIED_REGISTRY_ACTOR_ADDR, &TokenAmount::zero(), VrM::AddVerifiedClient as u64, Some(&AddVerifiedClientParams { address: vclient, allowance: BigInt::from(1u64 << 49) }));
        if !ok || !r.code.is_success() {
            o.inconclusive.push("DataCap client could not be set up".into());
        }
        w.v.random_faults.replace(faults);
    }
    // sector -> (pieces, allocation ids) of pre-committed sectors with a verified piece
    let mut vpending: BTreeMap<(u64, u64), Vec<fil_actor_miner::PieceActivationManifest>> = BTreeMap::new();
    let mut mon = Monitors::new(&w);
    mon.fault_budget = if cfg.enumerate_faults { 12 } else { 0 };
    let policy = w.v.policy.clone();
    let mut stop = false;
    let first = snaps(&w);
    mon.quiescent(&w, &first, None, None, &mut o, "genesis");
    // the whale's sectors are proven by its maintenance PoSts; its sectors start unproven
    let mut ops_ok = 0u64;
    let mut kinds_ok: BTreeSet<&'static str> = BTreeSet::new();
    let n_real = kinds.len();

    for step in 0..cfg.nops {
        if stop {
            break;
        }
        let mi = rng.below(n_real as u64) as usize;
        let m = w.miners[mi].clone();
        let mut pre = match snap_miner(&w.v, &m.addr) {
            Some(s) => s,
            None => {
                o.violate("state_readable", "C04/state_unreadable", format!("step {step}: miner {} state cannot be decoded", m.addr));
                break;
            }
        };
        let epoch = w.v.epoch();
        let dl = deadline_at(&policy, pre.proving_period_start, epoch);
        let caller = if rng.chance(95, 100) { m.worker } else { *rng.pick(&w.others) };
        let live: Vec<u64> = pre.deadlines.iter().flat_map(|d| d.partitions.iter().flat_map(|p| p.live())).collect();
        let faulty: Vec<u64> = pre.deadlines.iter().flat_map(|d| d.partitions.iter().flat_map(|p| p.faults.iter().cloned())).collect();
        let precommitted: Vec<u64> = pre.precommits.keys().cloned().collect();
        let active: Vec<u64> = pre.deadlines.iter().flat_map(|d| d.partitions.iter().flat_map(|p| p.active())).collect();
        let ready: Vec<u64> = precommitted.iter().filter(|n| pre.precommits[n].pre_commit_epoch + policy.pre_commit_challenge_delay < epoch).cloned().collect();
        let w_pre = if live.len() + precommitted.len() < 10 { 22 } else { 6 };
        let w_prove = if !ready.is_empty() { 30 } else if !precommitted.is_empty() { 12 } else { 0 };
        let w_post = if live.is_empty() { 0 } else { 30 };
        // replica updates need proven, healthy, deal-free sectors in deadlines that are neither open nor next
        let updatable: Vec<(u64, u64, u64)> = {
            let loc = locations(&pre);
            active
                .iter()
                .filter(|sn| pre.sectors.get(sn).is_some_and(|s| s.deal_weight.is_zero() && s.verified_deal_weight.is_zero()))
                .filter_map(|sn| loc.get(sn).map(|(d, p)| (*sn, *d, *p)))
                .filter(|(_, d, _)| (*d + 48 - dl.index) % 48 >= 2)
                .collect()
        };
        let w_upd = if updatable.is_empty() { 0 } else { 6 };
        let kind = rng.weighted(&[w_pre, w_prove, w_post, 7, 8, 4, 7, 3, 2, 5, if focus == "C14" { 9 } else { 4 }, 18, 6, 2, 3, w_upd, if focus == "C14" { 5 } else { 2 }, 1]);
        let (name, r, inv): (&'static str, vm_api::MessageResult, Option<Inv>) = match kind {
            0 => {
                let n = 1 + rng.below(4);
                let nums: Vec<u64> = (0..n).map(|i| if rng.chance(1, 12) && !live.is_empty() { *rng.pick(&live) } else { w.miners[mi].next_sector + i }).collect();
                w.miners[mi].next_sector += n;
                let base = policy.min_sector_expiration + fil_actor_miner::max_prove_commit_duration(&policy, m.seal_proof).unwrap_or(30 * DAY);
                let exp = epoch + match rng.weighted(&[70, 20, 10]) {
                    0 => base + rng.range(1, 40 * DAY),
                    1 => base + rng.range(-2, 3),
                    _ => rng.range(10, 600) * DAY,
                };
                let verified_piece = nums.len() == 1 && caller == m.worker && rng.chance(1, 2);
                if verified_piece {
                    // allocate DataCap for one piece filling the sector, pre-commit with its CommD
                    use fil_actor_verifreg::AllocationRequest;
                    use fvm_shared::piece::{PaddedPieceSize, PieceInfo};
                    let size = PaddedPieceSize(m.seal_proof.sector_size().unwrap() as u64);
                    let data = fil_actors_runtime::test_utils::make_piece_cid(format!("vp{index}-{step}").as_bytes());
                    let req = AllocationRequest { provider: m.addr.id().unwrap(), data, size, term_min: policy.minimum_verified_allocation_term, term_max: policy.maximum_verified_allocation_term, expiration: epoch + rng.range(35, 59) * DAY };
                    let (tr, _) = crate::verif::transfer_to_registry(&w.v, &vclient, &crate::verif::whole(size.0), vec![req], vec![]);
                    if tr.code.is_success() {
                        let resp: frc46_token::token::types::TransferReturn = ret(&tr).unwrap();
                        let ar: fil_actor_verifreg::AllocationsResponse = resp.recipient_data.deserialize().unwrap();
                        let pieces = vec![PieceInfo { cid: data, size }];
                        let commd: BTreeMap<u64, cid::Cid> = [(nums[0], commd_of(m.seal_proof, &pieces))].into_iter().collect();
                        let (r, i) = precommit(&w.v, &m, &caller, &nums, exp, Some(&commd));
                        if r.code.is_success() {
                            vpending.insert((m.addr.id().unwrap(), nums[0]), vec![fil_actor_miner::PieceActivationManifest { cid: data, size, verified_allocation_key: Some(fil_actor_miner::VerifiedAllocationKey { client: vclient.id().unwrap(), id: ar.new_allocations[0] }), notify: vec![] }]);
                        }
                        ("precommit_verified", r, i)
                    } else {
                        o.count("datacap_allocation_rejected");
                        let (r, i) = precommit(&w.v, &m, &caller, &nums, exp, None);
                        ("precommit", r, i)
                    }
                } else {
                    let (r, i) = precommit(&w.v, &m, &caller, &nums, exp, None);
                    ("precommit", r, i)
                }
            }
            1 => {
                if precommitted.is_empty() {
                    continue;
                }
                let nums: Vec<u64> = rng.subset(&precommitted, 2, 3);
                if nums.is_empty() {
                    continue;
                }
                let bad: BTreeSet<u64> = nums.iter().filter(|_| rng.chance(1, 10)).cloned().collect();
                // most attempts wait for the challenge delay
                let ready = nums.iter().all(|n| pre.precommits[n].pre_commit_epoch + policy.pre_commit_challenge_delay < epoch);
                if !ready && rng.chance(3, 4) {
                    let to = nums.iter().map(|n| pre.precommits[n].pre_commit_epoch).max().unwrap() + policy.pre_commit_challenge_delay + 1;
                    advance_monitored(&w, &mut mon, to, cfg.dense, &mut o, &mut stop);
                    if stop {
                        break;
                    }
                    pre = snap_miner(&w.v, &m.addr).unwrap();
                }
                let vkeys: Vec<u64> = nums.iter().filter(|n| vpending.contains_key(&(m.addr.id().unwrap(), **n))).cloned().collect();
                if !vkeys.is_empty() {
                    // sectors pre-committed with a verified piece are activated with their manifests
                    // (unverified ones in the same message carry no pieces)
                    let acts: Vec<(u64, Vec<fil_actor_miner::PieceActivationManifest>)> = nums.iter().map(|n| (*n, vpending.get(&(m.addr.id().unwrap(), *n)).cloned().unwrap_or_default())).collect();
                    let (r, i) = prove_commit_pieces(&w.v, &m, &caller, acts, rng.chance(1, 4));
                    if r.code.is_success() {
                        o.add("verified_sectors_activated", vkeys.len() as u64);
                    }
                    ("prove_commit_verified", r, i)
                } else {
                    let (r, i) = prove_commit(&w.v, &m, &caller, &nums, &bad, rng.chance(1, 4));
                    ("prove_commit", r, i)
                }
            }
            2 => {
                // PoSt: for the open deadline if it holds sectors, else travel to the next deadline that does
                let mut dl = dl;
                if pre.deadlines[dl.index as usize].live_sectors == 0 || epoch <= dl.open || rng.chance(1, 4) {
                    let with: Vec<u64> = (0..48u64).filter(|i| pre.deadlines[*i as usize].live_sectors > 0).collect();
                    if with.is_empty() {
                        continue;
                    }
                    // first such deadline strictly after the current one (cyclically)
                    let target = with.iter().cloned().min_by_key(|i| (*i + 48 - dl.index - 1) % 48).unwrap();
                    let ahead = (target + 48 - dl.index - 1) % 48 + 1;
                    let open = dl.open + ahead as i64 * policy.wpost_challenge_window;
                    let to = open + match rng.weighted(&[70, 15, 15]) { 0 => rng.range(1, 40), 1 => 0, _ => policy.wpost_challenge_window - 1 };
                    o.op(format!("{step}: e{epoch} travel to deadline {target} (epoch {to})"));
                    advance_monitored(&w, &mut mon, to, cfg.dense, &mut o, &mut stop);
                    if stop {
                        break;
                    }
                    pre = snap_miner(&w.v, &m.addr).unwrap();
                    dl = deadline_at(&policy, pre.proving_period_start, w.v.epoch());
                }
                let d = &pre.deadlines[dl.index as usize];
                if d.partitions.is_empty() {
                    continue;
                }
                let mut parts: Vec<(u64, Vec<u64>)> = vec![];
                for (pi, p) in d.partitions.iter().enumerate() {
                    if rng.chance(5, 6) {
                        let lv: Vec<u64> = p.live().into_iter().collect();
                        let skipped = match rng.weighted(&[75, 17, 8]) {
                            0 => vec![],
                            1 => rng.subset(&lv, 1, 3),
                            _ => lv.clone(),
                        };
                        parts.push((pi as u64, skipped));
                    }
                }
                if parts.is_empty() {
                    continue;
                }
                if rng.chance(1, 15) {
                    parts.push((d.partitions.len() as u64 + rng.below(2), vec![]));
                }
                let valid = rng.chance(9, 10);
                let (r, i) = submit_post(&w.v, &m, &caller, &dl, parts.clone(), valid);
                if r.code.is_success() {
                    mon.on_post_accepted(&pre, dl.index, &parts);
                }
                ("post", r, i)
            }
            3 => {
                if live.is_empty() {
                    continue;
                }
                // a third of the declarations deliberately span several deadlines that hold proven sectors
                // (away from the open deadline and the next one, where declarations are refused)
                let spread: Vec<usize> = pre
                    .deadlines
                    .iter()
                    .enumerate()
                    .filter(|(di, d)| {
                        let ahead = (*di as u64 + 48 - dl.index) % 48;
                        ahead >= 2 && d.partitions.iter().any(|p| !p.active().is_empty())
                    })
                    .map(|x| x.0)
                    .collect();
                let multi = spread.len() >= 2 && rng.chance(1, 3);
                let ss: Vec<u64> = if multi {
                    let mut ss = vec![];
                    for di in rng.subset(&spread, 2, 3).into_iter().take(3) {
                        let act: Vec<u64> = pre.deadlines[di].partitions.iter().flat_map(|p| p.active()).collect();
                        ss.push(*rng.pick(&act));
                    }
                    o.count("declare_faults_multi_deadline_messages");
                    ss
                } else {
                    rng.subset(&live, 1, 3)
                };
                if ss.is_empty() {
                    continue;
                }
                let decls = group(&pre, &ss, &mut rng, !multi);
                let (r, i) = declare_faults(&w.v, &m, &caller, &decls);
                if r.code.is_success() && decls.iter().map(|d| d.0).collect::<BTreeSet<_>>().len() >= 2 {
                    o.count("declare_faults_accepted_spanning_deadlines");
                }
                if r.code.is_success() {
                    mon.on_faults_declared(&pre, &decls);
                }
                ("declare_faults", r, i)
            }
            4 => {
                if faulty.is_empty() {
                    continue;
                }
                let ss = rng.subset(&faulty, 2, 3);
                if ss.is_empty() {
                    continue;
                }
                let decls = group(&pre, &ss, &mut rng, true);
                let (r, i) = declare_recovered(&w.v, &m, &caller, &decls);
                ("declare_recovered", r, i)
            }
            5 => {
                if live.is_empty() {
                    continue;
                }
                let ss = rng.subset(&live, 1, 4);
                if ss.is_empty() {
                    continue;
                }
                let decls = group(&pre, &ss, &mut rng, true);
                let (r, i) = terminate_sectors(&w.v, &m, &caller, &decls);
                ("terminate", r, i)
            }
            6 => {
                if live.is_empty() {
                    continue;
                }
                // half of the extensions target one deadline with several partitions: one declaration per
                // partition in a single message, usually with a common new expiration
                let multi: Vec<usize> = pre.deadlines.iter().enumerate().filter(|(_, d)| d.partitions.iter().filter(|p| !p.active().is_empty()).count() >= 2).map(|x| x.0).collect();
                let is_multi = !multi.is_empty() && rng.chance(1, 2);
                let (ss, common): (Vec<u64>, Option<ChainEpoch>) = if is_multi {
                    let di = *rng.pick(&multi);
                    let mut ss = vec![];
                    for p in &pre.deadlines[di].partitions {
                        let act: Vec<u64> = p.active().into_iter().collect();
                        if !act.is_empty() && rng.chance(5, 6) {
                            ss.extend(rng.subset(&act, 1, 2));
                        }
                    }
                    let cur = ss.iter().filter_map(|s| pre.sectors.get(s)).map(|s| s.expiration).max().unwrap_or(epoch);
                    o.count("extend_multi_partition_messages");
                    (ss, if rng.chance(4, 5) { Some(cur + rng.range(1, 120) * DAY) } else { None })
                } else {
                    (rng.subset(&live, 1, 3), if rng.chance(1, 2) { Some(epoch + rng.range(200, 500) * DAY) } else { None })
                };
                if ss.is_empty() {
                    continue;
                }
                let decls: Vec<(u64, u64, Vec<u64>, ChainEpoch)> = group(&pre, &ss, &mut rng, !is_multi)
                    .into_iter()
                    .map(|(d, p, v)| {
                        if let Some(c) = common {
                            return (d, p, v, c);
                        }
                        let cur = v.iter().filter_map(|s| pre.sectors.get(s)).map(|s| s.expiration).max().unwrap_or(epoch);
                        let ne = match rng.weighted(&[70, 15, 15]) {
                            0 => cur + rng.range(1, 200) * DAY,
                            1 => cur - rng.range(1, 10) * DAY,
                            _ => epoch + rng.range(100, 2000) * DAY,
                        };
                        (d, p, v, ne)
                    })
                    .collect();
                let (r, i) = extend_sectors(&w.v, &m, &caller, &decls);
                if r.code.is_success() && decls.len() >= 2 && decls.iter().any(|a| decls.iter().any(|b| a.0 == b.0 && a.1 != b.1 && a.3 == b.3)) {
                    o.count("extend_accepted_two_partitions_same_deadline_same_expiration");
                }
                ("extend", r, i)
            }
            7 => {
                let di = rng.below(48);
                let np = pre.deadlines[di as usize].partitions.len() as u64;
                let di = if np == 0 { pre.deadlines.iter().position(|d| !d.partitions.is_empty()).map(|x| x as u64).unwrap_or(di) } else { di };
                let np = pre.deadlines[di as usize].partitions.len() as u64;
                let parts: Vec<u64> = (0..np + 1).filter(|_| rng.chance(1, 2)).collect();
                let (r, i) = compact_partitions(&w.v, &m, &caller, di, &parts);
                ("compact_partitions", r, i)
            }
            8 => {
                let mask: Vec<u64> = (0..4).map(|_| rng.below(w.miners[mi].next_sector + 20)).collect();
                let (r, i) = compact_sector_numbers(&w.v, &m, &caller, &mask);
                ("compact_sector_numbers", r, i)
            }
            9 => {
                let target = if rng.chance(4, 5) { m.addr } else { *rng.pick(&w.others) };
                let penalty = if rng.chance(1, 3) { atto(rng.below(1u64 << 58)) } else { TokenAmount::zero() };
                let (r, i) = award_block_reward(&w.v, &target, &penalty, &atto(rng.below(1_000_000)), 1 + rng.range(0, 2));
                ("award_block_reward", r, i)
            }
            10 => {
                let who = match rng.below(3) {
                    0 => m.owner,
                    1 => m.worker,
                    _ => *rng.pick(&w.others),
                };
                let amt = match rng.weighted(&[60, 30, 6, 4]) {
                    0 => atto(1 + rng.below(1_000_000)),
                    1 => fil(rng.range(1, 50)),
                    2 => fil(rng.range(1, 100_000)),
                    _ => &pre.balance + atto(1),
                };
                // with a third-party beneficiary: often the beneficiary itself asks, and often right at the
                // term's expiration epoch (-1, 0, +1)
                let third_party = pre.info.beneficiary != pre.info.owner;
                let who = if third_party && rng.chance(1, 2) { pre.info.beneficiary } else { who };
                if third_party && pre.info.term.2 > epoch && pre.info.term.2 - epoch < 6000 && rng.chance(1, 2) {
                    let to = (pre.info.term.2 + rng.range(-1, 1)).max(epoch + 1);
                    advance_monitored(&w, &mut mon, to, cfg.dense, &mut o, &mut stop);
                    if stop {
                        break;
                    }
                    pre = snap_miner(&w.v, &m.addr).unwrap();
                    o.count("withdrawals_aimed_at_term_expiration");
                }
                let (r, i) = withdraw(&w.v, &m, &who, &amt);
                ("withdraw", r, i)
            }
            11 => {
                // advance time: to the next deadline boundary +-1, by a few epochs, or by days
                let to = match rng.weighted(&[30, 30, 25, 12, 3]) {
                    0 => dl.close + rng.range(-1, 1),
                    1 => epoch + rng.range(1, 30),
                    2 => dl.close + rng.range(1, 5) * policy.wpost_challenge_window + rng.range(0, 59),
                    3 => epoch + rng.range(1, 3) * DAY,
                    _ => epoch + rng.range(3, 45) * DAY,
                }
                .max(epoch + 1);
                let dense = cfg.dense || (to - epoch < 70 && rng.chance(1, 2));
                o.op(format!("{step}: e{epoch} advance to {to} dense={dense}"));
                o.hash_mix(0xad00 + (to - epoch).min(5000) as u64);
                advance_monitored(&w, &mut mon, to, dense, &mut o, &mut stop);
                continue;
            }
            12 => {
                let cand: Vec<u64> = (0..4).map(|i| w.miners[mi].next_sector + i).collect();
                w.miners[mi].next_sector += 4;
                let n = 1 + rng.below(3) as usize;
                let exp = epoch + 181 * DAY + rng.range(0, 100 * DAY);
                let fav = (m.addr.id().unwrap() * 7 + 5) % 48;
                let (r, i) = prove_commit_ni(&w.v, &m, &caller, &cand[..n], exp, if rng.chance(2, 3) { fav } else { rng.below(48) });
                ("prove_commit_ni", r, i)
            }
            14 => {
                // consensus fault report; judged with and without the reporter's payment failing
                let reporter = *rng.pick(&w.others);
                let target = if rng.chance(9, 10) { m.addr } else { w.miners[(mi + 1) % w.miners.len()].addr };
                let fe = epoch - rng.range(-1, 300);
                let snap0 = w.v.snapshot();
                let judge = |w: &MinerWorld, inv: &Inv, pre: &MinerSnap, o: &mut Outcome, tag: &str| {
                    let post = snap_miner(&w.v, &m.addr).unwrap();
                    let rs: fil_actor_reward::State = state(&w.v, &fil_actors_runtime::REWARD_ACTOR_ADDR).unwrap();
                    let penalty = TokenAmount::from_atto(&rs.this_epoch_reward_smoothed.position >> 128u32);
                    let burnt = send_to_burn(inv);
                    let mut paid = TokenAmount::zero();
                    for i in inv.effective() {
                        if Address::new_id(i.from) == m.addr && i.to == reporter && i.method == METHOD_SEND {
                            paid += &i.value;
                        }
                    }
                    let accounted = &burnt + &paid + (&post.fee_debt - &pre.fee_debt);
                    o.count("consensus_fault_identity_checks");
                    if accounted != penalty {
                        o.violate("charged_is_burnt_or_debt", &format!("C15/consensus_fault_penalty_unaccounted:{tag}"), format!("step {step}: consensus-fault penalty {penalty} charged to miner {}; burnt {burnt} + paid to reporter {paid} + fee-debt change {} = {accounted}: the difference {} stayed with the miner", m.addr, &post.fee_debt - &pre.fee_debt, &penalty - &accounted));
                    }
                    let taken = &pre.balance - &post.balance;
                    if paid > taken {
                        o.violate("reporter_reward_bounded", "C15/reporter_reward_exceeds_amount_taken", format!("step {step}: reporter got {paid} but only {taken} left the miner"));
                    }
                };
                let (r, i) = report_consensus_fault(&w.v, &m, &reporter, fe, &target);
                if let (true, Some(inv)) = (r.code.is_success(), &i) {
                    judge(&w, inv, &pre, &mut o, "reporter-paid");
                    // fault enumeration: same report from the same snapshot with the payment to the reporter failing
                    let after = w.v.snapshot();
                    w.v.restore(&snap0);
                    w.v.fault_rules.borrow_mut().push(crate::mvm::FaultRule::new(Some(m.addr.id().unwrap()), Some(reporter.id().unwrap()), Some(METHOD_SEND), 0, fvm_shared::error::ExitCode::SYS_OUT_OF_GAS));
                    let (r2, i2) = report_consensus_fault(&w.v, &m, &reporter, fe, &target);
                    w.v.clear_faults();
                    if cfg.fault_prob > 0 {
                        w.v.random_faults.replace(Some((index * 7919 + 13 + step as u64, cfg.fault_prob)));
                    }
                    o.count("consensus_fault_reruns_with_reporter_failing");
                    if let (true, Some(inv2)) = (r2.code.is_success(), &i2) {
                        judge(&w, inv2, &pre, &mut o, "reporter-transfer-failed");
                    }
                    w.v.restore(&after);
                }
                ("report_consensus_fault", r, i)
            }
            15 => {
                // replica update of 1-3 deal-free sectors (from different deadlines when possible), each
                // receiving one piece that fills it: verified (DataCap allocation) or plain
                use fil_actor_verifreg::AllocationRequest;
                use fvm_shared::piece::PaddedPieceSize;
                let mut chosen: Vec<(u64, u64, u64)> = vec![];
                let mut pool = updatable.clone();
                rng.shuffle(&mut pool);
                for c in pool {
                    if chosen.len() < 3 && (chosen.iter().all(|x| x.1 != c.1) || rng.chance(1, 3)) {
                        chosen.push(c);
                    }
                }
                let size = PaddedPieceSize(m.seal_proof.sector_size().unwrap() as u64);
                let mut updates = vec![];
                for (k, (sn, d, p)) in chosen.iter().enumerate() {
                    let data = fil_actors_runtime::test_utils::make_piece_cid(format!("up{index}-{step}-{k}").as_bytes());
                    let exp = pre.sectors[sn].expiration;
                    let mut key = None;
                    if rng.chance(3, 4) {
                        // the claim's term must cover the sector's remaining life
                        let life = exp - epoch;
                        let req = AllocationRequest { provider: m.addr.id().unwrap(), data, size, term_min: policy.minimum_verified_allocation_term.min(life).max(policy.minimum_verified_allocation_term), term_max: policy.maximum_verified_allocation_term, expiration: epoch + rng.range(2, 50) * DAY };
                        let (tr, _) = crate::verif::transfer_to_registry(&w.v, &vclient, &crate::verif::whole(size.0), vec![req], vec![]);
                        if tr.code.is_success() {
                            let resp: frc46_token::token::types::TransferReturn = ret(&tr).unwrap();
                            let ar: fil_actor_verifreg::AllocationsResponse = resp.recipient_data.deserialize().unwrap();
                            key = Some(fil_actor_miner::VerifiedAllocationKey { client: vclient.id().unwrap(), id: ar.new_allocations[0] });
                        }
                    }
                    updates.push((*sn, *d, *p, vec![fil_actor_miner::PieceActivationManifest { cid: data, size, verified_allocation_key: key, notify: vec![] }]));
                }
                let deadlines: BTreeSet<u64> = chosen.iter().map(|c| c.1).collect();
                let (r, i) = prove_replica_updates(&w.v, &m, &caller, updates, rng.chance(1, 4));
                if r.code.is_success() {
                    o.count("replica_update_messages_ok");
                    if deadlines.len() >= 2 {
                        o.count("replica_update_messages_spanning_deadlines");
                    }
                }
                ("replica_update", r, i)
            }
            16 => {
                // the owner names a third-party beneficiary (or takes the role back); the nominee confirms
                let nominee = if pre.info.beneficiary != pre.info.owner && rng.chance(1, 3) { pre.info.owner } else { w.others[2] };
                let back = nominee == pre.info.owner;
                let p = fil_actor_miner::ChangeBeneficiaryParams {
                    new_beneficiary: nominee,
                    new_quota: if back { TokenAmount::zero() } else { fil(rng.range(1, 2000)) },
                    new_expiration: if back { 0 } else { epoch + rng.range(20, 5000) },
                };
                let (r1, _) = change_beneficiary(&w.v, &m, &m.owner, &p);
                if r1.code.is_success() && pre.info.beneficiary != pre.info.owner && rng.chance(3, 4) {
                    let _ = change_beneficiary(&w.v, &m, &pre.info.beneficiary, &p);
                }
                let (r, i) = change_beneficiary(&w.v, &m, &nominee, &p);
                ("change_beneficiary", r, i)
            }
            _ => {
                let amt = fil(rng.range(1, 1000));
                let (r, i) = call0(&w.v, &m.owner, &m.addr, &amt, METHOD_SEND);
                ("fund", r, i)
            }
        };
        o.op(format!("{step}: e{epoch} miner {} {name} by {caller} -> {} {}", m.addr, r.code, if r.code.is_success() { "" } else { &r.message[..r.message.len().min(220)] }));
        o.count(&format!("op_{name}_{}", if r.code.is_success() { "ok" } else { "rejected" }));
        o.hash_mix(((kind as u64) << 1) | r.code.is_success() as u64);
        if r.code.is_success() {
            ops_ok += 1;
            kinds_ok.insert(name);
        }
        if let Some(inv) = &inv {
            let injected = { let mut n = 0; inv.walk(&mut |i, _, _| if i.injected { n += 1 }); n };
            if injected > 0 {
                o.add("injected_send_failures", injected);
                if r.code.is_success() {
                    o.count("messages_ok_with_tolerated_failure");
                }
            }
        }
        let post = snaps(&w);
        if let (Some(inv), Some(pm)) = (&inv, post.iter().find(|s| s.id == pre.id)) {
            mon.fees.on_message(&pre, pm, inv, r.code.is_success(), epoch, &mut o, &format!("step {step} ({name})"));
        }
        mon.quiescent(&w, &post, inv.as_ref(), None, &mut o, &format!("step {step} ({name})"));
    }
    // let the chain run a little (or, for vesting, a whole schedule) so that scheduled work happens
    if !stop {
        let to = w.v.epoch() + 2 * policy.wpost_challenge_window + cfg.tail_days * DAY;
        advance_monitored(&w, &mut mon, to, cfg.dense, &mut o, &mut stop);
    }
    let proven = mon.shadow.proven.iter().filter(|k| !w.miners.iter().any(|m| m.whale && m.addr.id().unwrap() == k.0)).count() as u64;
    o.add("sectors_proven_once", proven);
    o.add("distinct_op_kinds_ok", kinds_ok.len() as u64);
    o.nontrivial = ops_ok >= 8 && kinds_ok.len() >= 3;
    if focus == "C02" || focus == "C04" {
        o.nontrivial = o.nontrivial && proven >= 1;
    }
    let prefix = format!("{focus}/");
    o.violations.retain(|x| x.signature.starts_with(&prefix));
    o
}
