use crate::framework::Cfg;
pub mod c06;
pub mod c07;
pub mod c08;
pub mod c12;
pub mod c16;
pub mod c20;

pub fn dispatch(cfg: &Cfg) -> i32 {
    match cfg.prop.as_str() {
        "C06" => c06::run(cfg),
        "C07" => c07::run(cfg),
        "C08" => c08::run(cfg),
        "C12" => c12::run(cfg),
        "C16" => c16::run(cfg),
        "C20" => c20::run(cfg),
        p => {
            eprintln!("no check for property {p}");
            2
        }
    }
}
