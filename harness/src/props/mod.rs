use crate::framework::Cfg;
pub mod c16;

pub fn dispatch(cfg: &Cfg) -> i32 {
    match cfg.prop.as_str() {
        "C16" => c16::run(cfg),
        p => {
            eprintln!("no check for property {p}");
            2
        }
    }
}
