use crate::framework::Cfg;
pub mod c01_05;
pub mod c06;
pub mod c07;
pub mod c08;
pub mod c09;
pub mod c10;
pub mod c11;
pub mod c12;
pub mod c13;
pub mod c16;
pub mod c17;
pub mod c18;
pub mod c19;
pub mod c20;
pub mod minerhist;

pub fn dispatch(cfg: &Cfg) -> i32 {
    match cfg.prop.as_str() {
        "C01" => c01_05::run_c01(cfg),
        "C02" => c01_05::run_c02(cfg),
        "C03" => c01_05::run_c03(cfg),
        "C04" => c01_05::run_c04(cfg),
        "C05" => c01_05::run_c05(cfg),
        "C06" => c06::run(cfg),
        "C07" => c07::run(cfg),
        "C08" => c08::run(cfg),
        "C09" => c09::run(cfg),
        "C10" => c10::run(cfg),
        "C11" => c11::run(cfg),
        "C12" => c12::run(cfg),
        "C13" => c13::run(cfg),
        "C14" => c01_05::run_c14(cfg),
        "C15" => c01_05::run_c15(cfg),
        "C16" => c16::run(cfg),
        "C17" => c17::run(cfg),
        "C18" => c18::run(cfg),
        "C19" => c19::run(cfg),
        "C20" => c20::run(cfg),
        p => {
            eprintln!("no check for property {p}");
            2
        }
    }
}
