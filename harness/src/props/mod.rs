use crate::framework::Cfg;
pub mod c12;
pub mod c16;

pub fn dispatch(cfg: &Cfg) -> i32 {
    match cfg.prop.as_str() {
        "C12" => c12::run(cfg),
        "C16" => c16::run(cfg),
        p => {
            eprintln!("no check for property {p}");
            2
        }
    }
}
