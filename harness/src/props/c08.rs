//! C08 — deal lifecycle: unique publication, one timely activation by the provider.
//! Registry oracles over the shared market history (see c06.rs / market.rs).
use crate::framework::*;
use std::time::Duration;

pub fn run(cfg: &Cfg) -> i32 {
    let mut agg = Agg::new(cfg);
    let tier = cfg.tier;
    let n = tier.pick(160, 2000);
    agg.run_parallel("market", n, Duration::from_secs(tier.pick(240, 1800)), |i, rng| super::c06::history(i, rng, tier, "C08"));
    agg.finish(
        "exploration",
        "same generated market histories as C06 (publish batches with duplicates within and across batches, re-publication after settlement / termination / timeout, foreign providers, bad signatures, unfunded parties, late starts; activation through BatchActivateDeals and SectorContentChanged with arbitrary and repeated ids incl. non-adjacent repeats, foreign miners, short sectors, racing the start epoch); registry oracle: ids strictly increasing and never reused, a proposal accepted again while its earlier deal is outstanding, acceptance only when authenticated / own provider / funded / not started, each id activated at most once, by its provider, by its start, in a sector that outlives it, unactivated deals removed with collateral burnt; non-trivial = at least 2 successful publishes and 1 activation",
        tier.pick(40, 400),
        &["activation / termination notices are sent to the market from the miner actors' addresses directly", "signature scheme is the harness's (key bytes ++ message)"],
        serde_json::json!({}),
    )
}
