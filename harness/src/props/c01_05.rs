//! C01–C05: the world-level and miner-state monitors over generated miner histories.
use super::minerhist::{HistCfg, Variant, history};
use crate::framework::*;
use std::time::Duration;

fn run_focus(cfg: &Cfg, focus: &'static str, level: &str, rule: &str, assumptions: &[&str], fault_prob: u32) -> i32 {
    let enumerate_faults = focus == "C05";
    let mut agg = Agg::new(cfg);
    let tier = cfg.tier;
    let budget = Duration::from_secs(tier.pick(300, 1700));
    // realistic network (whale provides the network pledge)
    let hc = HistCfg { variant: Variant::WithWhale, nops: tier.pick(90, 160), dense: false, min_power: 4096, fault_prob, enumerate_faults, tail_days: 0 };
    agg.run_parallel("miners", tier.pick(24, 450), budget, |i, rng| history(i, rng, &hc, focus));
    // fully dense ticks, shorter
    let hd = HistCfg { variant: Variant::WithWhale, nops: tier.pick(40, 70), dense: true, min_power: 2048 * 6, fault_prob, enumerate_faults, tail_days: 0 };
    agg.run_parallel("miners-dense", tier.pick(6, 50), budget, |i, rng| history(i, rng, &hd, focus));
    // miners exactly as created, alone in the world
    let ha = HistCfg { variant: Variant::AsCreated, nops: tier.pick(60, 120), dense: false, min_power: 4096, fault_prob, enumerate_faults, tail_days: 0 };
    agg.run_parallel("miners-as-created", tier.pick(12, 150), budget, |i, rng| history(i, rng, &ha, focus));
    if focus == "C05" || focus == "C04" || focus == "C15" || focus == "C02" {
        // fault time-outs: few ops, then 45 days of chain time with whatever is faulty left faulty
        let hf = HistCfg { variant: Variant::WithWhale, nops: tier.pick(40, 60), dense: false, min_power: 4096, fault_prob, enumerate_faults: false, tail_days: 45 };
        agg.run_parallel("miners-fault-timeout", tier.pick(8, 80), budget, |i, rng| history(i, rng, &hf, focus));
    }
    if focus == "C14" {
        // whole vesting schedules: few ops, then more than 180 days of chain time
        let hv = HistCfg { variant: Variant::WithWhale, nops: tier.pick(30, 50), dense: false, min_power: 4096, fault_prob, enumerate_faults, tail_days: 190 };
        agg.run_parallel("miners-vesting-tail", tier.pick(8, 60), budget, |i, rng| history(i, rng, &hv, focus));
    }
    if focus == "C01" {
        // the other fund-holding actors: payment channels (solvency + conservation) and the market
        agg.run_parallel("paych", tier.pick(300, 3000), budget, |i, rng| super::c16::history(i, rng, tier, "C01"));
        agg.run_parallel("market", tier.pick(40, 400), budget, |i, rng| super::c06::history(i, rng, tier, "C01"));
    }
    agg.finish(level, rule, tier.pick(16, 300), assumptions, serde_json::json!({}))
}

const RULE: &str = "one history = 1-2 real miners (2 KiB sectors => 2-sector partitions; optionally a 32 GiB miner) created through power.CreateMiner with the real deposit, 60-160 state-aware ops (pre-commit batches incl. reused numbers, ProveCommitSectors3 with good/bad proofs, ProveCommitSectorsNI, Window PoSt with random partition subsets and skipped sets, valid/invalid proofs, DeclareFaults / DeclareFaultsRecovered / TerminateSectors / ExtendSectorExpiration2 with right and scrambled deadline/partition addressing, CompactPartitions, CompactSectorNumbers, AwardBlockReward with penalties, WithdrawBalance by owner/worker/strangers, funding) interleaved with epoch advances aimed at deadline boundaries +-1, single epochs, several deadlines, days and weeks; cron ticked at every epoch with scheduled work (workload `miners`), at every epoch (`miners-dense`), and without the pledge-providing whale miner (`miners-as-created`); non-trivial = at least 8 successful messages of at least 3 kinds (C02/C04: and at least one sector proven by PoSt); distinct by hash of (op kind, outcome) sequence";

const ASSUME: &[&str] = &[
    "MVM message semantics equal the FVM's; proofs are accepted unless they carry the harness's invalid marker",
    "workload `miners` contains a 32 GiB 'whale' miner with 80 sectors kept proven by the harness so that the network pledge total is large, as on a real network",
    "idle epochs are skipped in non-dense workloads; every epoch with a scheduled power/market cron event is ticked",
];

pub fn run_c01(cfg: &Cfg) -> i32 {
    run_focus(cfg, "C01", "exploration", RULE, ASSUME, 1u32 << 26)
}
pub fn run_c02(cfg: &Cfg) -> i32 {
    run_focus(cfg, "C02", "exploration", RULE, ASSUME, 0)
}
pub fn run_c03(cfg: &Cfg) -> i32 {
    run_focus(cfg, "C03", "exploration", RULE, ASSUME, 0)
}
pub fn run_c04(cfg: &Cfg) -> i32 {
    run_focus(cfg, "C04", "exploration", RULE, ASSUME, 0)
}
pub fn run_c05(cfg: &Cfg) -> i32 {
    run_focus(cfg, "C05", "fault_enumeration", RULE, ASSUME, 0)
}

pub fn run_c14(cfg: &Cfg) -> i32 {
    run_focus(cfg, "C14", "exploration", RULE, ASSUME, 0)
}
pub fn run_c15(cfg: &Cfg) -> i32 {
    run_focus(cfg, "C15", "fault_enumeration", RULE, ASSUME, 0)
}
