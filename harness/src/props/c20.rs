//! C20 — actor identities are unique, stable and derived as specified.
//! Registry monitor over the init actor's map / next_id, the state tree's (id -> code) relation and
//! every creation call seen in the traces; contract addresses recomputed with own Keccak + RLP.
use crate::evm::{self, Asm, op};
use crate::framework::*;
use crate::mvm::{Inv, Mvm};
use crate::rng::Rng;
use crate::world::*;
use cid::Cid;
use fil_actor_init::{Exec4Params, ExecParams, ExecReturn, State as InitState};
use fil_actors_runtime::runtime::Policy;
use fil_actors_runtime::runtime::builtins::Type;
use fil_actors_runtime::test_utils::*;
use fil_actors_runtime::{
    DEFAULT_HAMT_CONFIG, EAM_ACTOR_ADDR, EAM_ACTOR_ID, INIT_ACTOR_ADDR, Map2,
    STORAGE_POWER_ACTOR_ADDR,
};
use fvm_ipld_encoding::RawBytes;
use fvm_ipld_encoding::ipld_block::IpldBlock;
use fvm_shared::address::{Address, Payload};
use fvm_shared::bigint::Zero;
use fvm_shared::econ::TokenAmount;
use fvm_shared::{ActorID, METHOD_SEND};
use std::collections::{BTreeMap, BTreeSet};
use std::time::Duration;
use vm_api::VM;

/// runtime code of the "factory": calldata[0] selects
///  1 CREATE(value=callvalue, init=calldata[33..])       -> returns address word
///  2 CREATE2(salt=calldata[1..33], init=calldata[33..]) -> returns address word
///  3 SELFDESTRUCT(beneficiary = calldata[1..33])
///  4 CREATE with endowment = selfbalance+1 (fails the endowment check) -> returns word
///  5 CREATE2 twice with the same salt/init in one message -> returns second address word
///  7 CALL contract calldata[1..33] with calldata[33..], then CREATE(init = calldata[66..])
pub fn factory_runtime() -> Vec<u8> {
    let mut a = Asm::new();
    a.op(op::PUSH0).op(op::CALLDATALOAD).push(248).op(op::SHR);
    for (m, l) in [(1u64, "create"), (2, "create2"), (3, "sd"), (4, "poor"), (5, "twice"), (7, "reenter")] {
        a.op(op::DUP1).push(m).op(op::EQ).push_label(l).op(op::JUMPI);
    }
    a.op(op::STOP);
    // copy init code to memory 0, leave size on the stack
    let copy_init = |a: &mut Asm| {
        a.push(33).op(op::CALLDATASIZE).op(op::SUB); // size
        a.op(op::DUP1).push(33).op(op::PUSH0).op(op::CALLDATACOPY); // [.., size]
    };
    let ret_word = |a: &mut Asm| {
        a.op(op::PUSH0).op(op::MSTORE).push(32).op(op::PUSH0).op(op::RETURN);
    };
    a.label("create");
    copy_init(&mut a);
    a.op(op::PUSH0).op(op::CALLVALUE).op(op::CREATE);
    ret_word(&mut a);
    a.label("create2");
    a.push(1).op(op::CALLDATALOAD); // salt
    copy_init(&mut a); // [salt, size]
    a.op(op::PUSH0).op(op::CALLVALUE).op(op::CREATE2);
    ret_word(&mut a);
    a.label("sd");
    a.push(1).op(op::CALLDATALOAD).op(op::SELFDESTRUCT);
    a.label("poor");
    copy_init(&mut a);
    a.op(op::PUSH0).op(op::SELFBALANCE).push(1).op(op::ADD).op(op::CREATE);
    ret_word(&mut a);
    a.label("twice");
    a.push(1).op(op::CALLDATALOAD);
    copy_init(&mut a);
    a.op(op::PUSH0).op(op::PUSH0).op(op::CREATE2).op(op::POP);
    a.push(1).op(op::CALLDATALOAD);
    a.push(33).op(op::CALLDATASIZE).op(op::SUB);
    a.op(op::PUSH0).op(op::PUSH0).op(op::CREATE2);
    ret_word(&mut a);
    // 7: CALL the contract named in calldata[1..33] with calldata[33..] (e.g. this very factory, told
    //    to CREATE), then CREATE here as well: exercises nonce handling across re-entrancy
    a.label("reenter");
    copy_init(&mut a); // memory[0..size] = inner calldata, [size]
    a.op(op::PUSH0).op(op::PUSH0).op(op::DUP1 + 2).op(op::PUSH0).op(op::PUSH0);
    a.push(1).op(op::CALLDATALOAD).op(op::GAS).op(op::CALL).op(op::POP); // [size]
    a.push(33).op(op::SWAP1).op(op::SUB); // size - 33 : the init code inside the inner calldata
    a.push(33).op(op::PUSH0).op(op::CREATE);
    ret_word(&mut a);
    a.finish()
}

fn init_map(v: &Mvm) -> (BTreeMap<Address, ActorID>, ActorID) {
    let st: InitState = state(v, &INIT_ACTOR_ADDR).unwrap();
    let map: Map2<_, Address, ActorID> = Map2::load(v.store.as_ref(), &st.address_map, DEFAULT_HAMT_CONFIG, "addresses").unwrap();
    let mut m = BTreeMap::new();
    map.for_each(|k, id| {
        m.insert(k, *id);
        Ok(())
    })
    .unwrap();
    (m, st.next_id)
}

struct Registry {
    map: BTreeMap<Address, ActorID>,
    next_id: ActorID,
    codes: BTreeMap<ActorID, Cid>,
    ever: BTreeSet<ActorID>,
    /// contracts known to carry a tombstone from an earlier top-level message
    dead: BTreeSet<ActorID>,
    nonces: BTreeMap<ActorID, u64>,
}

fn codes_of(v: &Mvm) -> BTreeMap<ActorID, Cid> {
    v.actor_states().iter().filter_map(|(a, s)| a.id().ok().map(|i| (i, s.code))).collect()
}

fn type_of(c: &Cid) -> Option<Type> {
    ACTOR_TYPES.get(c).cloned()
}

fn check_message(v: &Mvm, reg: &mut Registry, inv: Option<&Inv>, ok: bool, origin_seq: u64, o: &mut Outcome, step: usize) {
    let (map, next_id) = init_map(v);
    let codes = codes_of(v);
    o.count("registry_checks");
    // --- registry invariants
    if next_id < reg.next_id {
        o.violate("id_monotone", "C20/next_id_decreased", format!("step {step}: next_id {} -> {}", reg.next_id, next_id));
    }
    for (a, id) in &reg.map {
        match map.get(a) {
            Some(i) if i == id => {}
            other => o.violate("address_stable", "C20/address_remapped", format!("step {step}: address {a} mapped to {id} before, now {:?}", other)),
        }
    }
    for (a, id) in &map {
        if !reg.map.contains_key(a) {
            o.count("new_address_mappings");
            if *id >= next_id {
                o.violate("id_fresh", "C20/mapped_id_not_allocated", format!("step {step}: {a} -> {id} but next_id is {next_id}"));
            }
            // a new mapping may point at an old id only for an f4 address's second (robust) name
            if *id < reg.next_id && !matches!(a.payload(), Payload::Actor(_)) {
                o.violate("id_fresh", "C20/new_address_maps_to_old_id", format!("step {step}: new address {a} mapped to pre-existing id {id}"));
            }
            if let Payload::Delegated(d) = a.payload()
                && d.namespace() == EAM_ACTOR_ID
                && let Ok(e) = <[u8; 20]>::try_from(d.subaddress())
                && evm::is_reserved_eth(&e)
            {
                o.violate("reserved_range", "C20/reserved_address_assigned", format!("step {step}: reserved eth address {} was assigned", hex::encode(e)));
            }
        }
    }
    // --- id -> code relation
    for (id, code) in &codes {
        match reg.codes.get(id) {
            None => {
                if reg.ever.contains(id) {
                    o.violate("id_fresh", "C20/id_reused", format!("step {step}: id {id} re-appeared after having been removed"));
                }
                if *id < reg.next_id {
                    o.violate("id_fresh", "C20/new_actor_at_old_id", format!("step {step}: new actor at id {id} which is below the previous next_id {}", reg.next_id));
                }
                o.count("new_actors");
                o.seen("created_types", format!("{:?}", type_of(code)));
            }
            Some(old) if old != code => {
                let (ot, nt) = (type_of(old), type_of(code));
                let allowed = ot == Some(Type::Placeholder) && matches!(nt, Some(Type::EVM) | Some(Type::EthAccount));
                if !allowed {
                    o.violate("no_overwrite", "C20/code_replaced", format!("step {step}: actor {id} changed code from {:?} to {:?}", ot, nt));
                } else {
                    o.count("placeholder_upgrades");
                }
            }
            _ => {}
        }
    }
    for id in reg.codes.keys() {
        if !codes.contains_key(id) {
            o.violate("no_overwrite", "C20/actor_vanished", format!("step {step}: actor {id} disappeared"));
        }
    }
    // --- creation calls in the trace
    if let (Some(inv), true) = (inv, ok) {
        for i in inv.effective() {
            let from_type = v.actor_type(i.from);
            if i.to == INIT_ACTOR_ADDR && i.method == fil_actor_init::Method::Exec as u64 {
                o.count("exec_ok");
                let p: ExecParams = i.params.as_ref().unwrap().deserialize().unwrap();
                let r: ExecReturn = i.ret.as_ref().unwrap().deserialize().unwrap();
                let t = type_of(&p.code_cid);
                let permitted = matches!(t, Some(Type::Multisig) | Some(Type::PaymentChannel)) || (t == Some(Type::Miner) && from_type == Some(Type::Power));
                if !permitted {
                    o.violate("creator_code", "C20/forbidden_exec_succeeded", format!("step {step}: Exec of {:?} by caller type {:?} succeeded", t, from_type));
                }
                let id = r.id_address.id().unwrap();
                if id < reg.next_id || reg.ever.contains(&id) {
                    o.violate("id_fresh", "C20/exec_returned_used_id", format!("step {step}: Exec returned id {id}, previous next_id {}", reg.next_id));
                }
                if map.get(&r.robust_address) != Some(&id) {
                    o.violate("address_stable", "C20/robust_address_not_mapped", format!("step {step}: robust {} does not map to {id}", r.robust_address));
                }
                if codes.get(&id) != Some(&p.code_cid) {
                    o.violate("creator_code", "C20/exec_code_mismatch", format!("step {step}: actor {id} does not carry the requested code"));
                }
            }
            if i.to == INIT_ACTOR_ADDR && i.method == fil_actor_init::Method::Exec4 as u64 {
                o.count("exec4_ok");
                if Address::new_id(i.from) != EAM_ACTOR_ADDR {
                    o.violate("creator_code", "C20/exec4_by_non_eam", format!("step {step}: Exec4 by {} succeeded", i.from));
                }
                let p: Exec4Params = i.params.as_ref().unwrap().deserialize().unwrap();
                if type_of(&p.code_cid) != Some(Type::EVM) && Address::new_id(i.from) == EAM_ACTOR_ADDR {
                    o.seen("exec4_codes_by_eam", format!("{:?}", type_of(&p.code_cid)));
                }
                let r: fil_actor_init::Exec4Return = i.ret.as_ref().unwrap().deserialize().unwrap();
                let id = r.id_address.id().unwrap();
                if let Some(old) = reg.codes.get(&id)
                    && type_of(old) != Some(Type::Placeholder)
                {
                    o.violate("no_overwrite", "C20/exec4_over_existing", format!("step {step}: Exec4 created over existing actor {id} of type {:?}", type_of(old)));
                }
                // the stable (robust) address returned for the new actor maps to its id from now on
                o.count("exec4_robust_addresses_checked");
                if map.get(&r.robust_address) != Some(&id) {
                    o.violate("address_stable", "C20/robust_address_not_mapped", format!("step {step}: Exec4 returned robust address {} which does not map to {id}{}", r.robust_address, if reg.codes.contains_key(&id) { " (deployment over a placeholder)" } else { "" }));
                }
            }
            if i.to == EAM_ACTOR_ADDR && (2..=4).contains(&i.method) {
                let r: fil_actor_eam::Return = i.ret.as_ref().unwrap().deserialize().unwrap();
                let expected: Option<[u8; 20]> = match i.method {
                    2 => {
                        let p: fil_actor_eam::CreateParams = i.params.as_ref().unwrap().deserialize().unwrap();
                        evm::eth_of(v, i.from).map(|s| evm::create_address(&s, p.nonce))
                    }
                    3 => {
                        let p: fil_actor_eam::Create2Params = i.params.as_ref().unwrap().deserialize().unwrap();
                        evm::eth_of(v, i.from).map(|s| evm::create2_address(&s, &p.salt, &p.initcode))
                    }
                    _ => {
                        let sender: Option<[u8; 20]> = match from_type {
                            Some(Type::Account) => {
                                let key = key_of(v, &Address::new_id(i.from));
                                Some(evm::keccak256(&key.to_bytes())[12..].try_into().unwrap())
                            }
                            _ => evm::eth_of(v, i.from),
                        };
                        sender.map(|s| evm::create_address(&s, origin_seq))
                    }
                };
                o.count("eam_creates_ok");
                o.seen("eam_methods", format!("{}", i.method));
                match expected {
                    Some(e) => {
                        if e != r.eth_address.0 {
                            o.violate("address_formula", format!("C20/address_formula:method{}", i.method),
                                format!("step {step}: EAM method {} returned {} but the Ethereum formula gives {}", i.method, hex::encode(r.eth_address.0), hex::encode(e)));
                        }
                    }
                    None => o.inconclusive.push("could not determine deployer eth address".into()),
                }
                if evm::is_reserved_eth(&r.eth_address.0) {
                    o.violate("reserved_range", "C20/reserved_address_assigned", format!("step {step}: EAM assigned reserved address {}", hex::encode(r.eth_address.0)));
                }
                if evm::eth_of(v, r.actor_id) != Some(r.eth_address.0) {
                    o.violate("address_stable", "C20/returned_id_has_other_address", format!("step {step}: actor {} does not carry eth address {}", r.actor_id, hex::encode(r.eth_address.0)));
                }
                if map.get(&evm::f4(&r.eth_address.0)) != Some(&r.actor_id) {
                    o.violate("address_stable", "C20/f4_not_mapped", format!("step {step}: f4 of {} does not map to {}", hex::encode(r.eth_address.0), r.actor_id));
                }
                // deployment over an existing actor: only a placeholder or a contract dead since an earlier message
                if let Some(old) = reg.codes.get(&r.actor_id) {
                    match type_of(old) {
                        Some(Type::Placeholder) => o.count("deploy_over_placeholder"),
                        Some(Type::EVM) if reg.dead.contains(&r.actor_id) => o.count("deploy_over_dead_contract"),
                        t => o.violate("no_overwrite", "C20/deploy_over_live_actor", format!("step {step}: deployment replaced live actor {} of type {:?}", r.actor_id, t)),
                    }
                }
            }
        }
        // nonce accounting per EVM contract
        let mut attempts: BTreeMap<ActorID, u64> = BTreeMap::new();
        let mut resurrected: BTreeSet<ActorID> = BTreeSet::new();
        inv.walk(&mut |i, _, anc_ok| {
            if anc_ok && i.to == EAM_ACTOR_ADDR && (i.method == 2 || i.method == 3) {
                *attempts.entry(i.from).or_insert(0) += 1;
            }
            if anc_ok && i.ok() && i.method == fil_actor_evm::Method::Resurrect as u64 && Address::new_id(i.from) == EAM_ACTOR_ADDR {
                resurrected.insert(i.to.id().unwrap());
            }
        });
        for (id, code) in &codes {
            if type_of(code) != Some(Type::EVM) {
                continue;
            }
            let Some(st) = evm::evm_state(v, *id) else { continue };
            if let Some(prev) = reg.nonces.get(id)
                && !resurrected.contains(id)
            {
                let want = prev + attempts.get(id).copied().unwrap_or(0);
                o.count("nonce_checks");
                if st.nonce < *prev {
                    o.violate("nonce", "C20/nonce_decreased", format!("step {step}: contract {id} nonce {} -> {}", prev, st.nonce));
                } else if st.nonce != want {
                    o.violate("nonce", "C20/nonce_delta", format!("step {step}: contract {id} nonce {} -> {} but {} create attempts passed the endowment check", prev, st.nonce, attempts.get(id).copied().unwrap_or(0)));
                }
            }
        }
    }
    // adopt
    for (id, code) in &codes {
        if type_of(code) == Some(Type::EVM)
            && let Some(st) = evm::evm_state(v, *id)
        {
            reg.nonces.insert(*id, st.nonce);
            if st.tombstone.is_some() {
                reg.dead.insert(*id);
            } else {
                reg.dead.remove(id);
            }
        }
    }
    reg.ever.extend(codes.keys().cloned());
    reg.codes = codes;
    reg.map = map;
    reg.next_id = next_id;
}

pub fn history(index: u64, mut rng: Rng, tier: Tier) -> Outcome {
    let mut o = Outcome::default();
    let v = genesis(Policy::default());
    let accts = make_accounts(&v, 3, 20_000 + index, &fil(1_000_000));
    let factory_rt = factory_runtime();
    let factory_init = evm::initcode_for(&factory_rt);
    let inits: Vec<(&str, Vec<u8>)> = vec![
        ("factory", factory_init.clone()),
        ("revert", vec![op::PUSH0, op::PUSH0, op::REVERT]),
        ("invalid", vec![op::INVALID]),
        ("empty", vec![]),
        ("tiny", evm::initcode_for(&[op::STOP])),
        ("ef", evm::initcode_for(&[0xEF, 0x00])),
    ];
    let (m0, n0) = init_map(&v);
    let mut reg = Registry { map: m0, next_id: n0, codes: codes_of(&v), ever: BTreeSet::new(), dead: BTreeSet::new(), nonces: BTreeMap::new() };
    reg.ever.extend(reg.codes.keys().cloned());
    let mut contracts: Vec<evm::Deployed> = vec![];
    let mut eth_accounts: Vec<Address> = vec![];
    let mut salts: Vec<[u8; 32]> = vec![];
    let mut created = 0u64;
    let nops = tier.pick(40, 70);
    for step in 0..nops {
        let kind = rng.weighted(&[10, 8, 8, 30, 10, 8, 6, 6]);
        let from = *rng.pick(&accts);
        let seq_before = |a: &Address| v.actor(a).map(|x| x.sequence).unwrap_or(0);
        let mut origin = from;
        let (r_ok, inv, desc): (bool, Option<Inv>, String) = match kind {
            0 => {
                // Exec with arbitrary code by arbitrary creator
                let codes = [*MULTISIG_ACTOR_CODE_ID, *PAYCH_ACTOR_CODE_ID, *MINER_ACTOR_CODE_ID, *EVM_ACTOR_CODE_ID, *ACCOUNT_ACTOR_CODE_ID, *MARKET_ACTOR_CODE_ID, *PLACEHOLDER_ACTOR_CODE_ID, *ETHACCOUNT_ACTOR_CODE_ID, make_identity_cid(b"fil/test/unknown")];
                let code = *rng.pick(&codes);
                let creator = match rng.weighted(&[60, 15, 15, 10]) {
                    0 => from,
                    1 => STORAGE_POWER_ACTOR_ADDR,
                    2 => EAM_ACTOR_ADDR,
                    _ => contracts.first().map(|c| Address::new_id(c.id)).unwrap_or(from),
                };
                origin = creator;
                let ctor = if code == *MULTISIG_ACTOR_CODE_ID {
                    RawBytes::serialize(fil_actor_multisig::ConstructorParams { signers: vec![from], num_approvals_threshold: 1, unlock_duration: 0, start_epoch: 0 }).unwrap()
                } else if code == *PAYCH_ACTOR_CODE_ID {
                    RawBytes::serialize(fil_actor_paych::ConstructorParams { from: accts[0], to: accts[1] }).unwrap()
                } else {
                    RawBytes::default()
                };
                let (r, inv) = call(&v, &creator, &INIT_ACTOR_ADDR, &TokenAmount::zero(), fil_actor_init::Method::Exec as u64, Some(&ExecParams { code_cid: code, constructor_params: ctor }));
                (r.code.is_success(), inv, format!("Exec {:?} by {creator} -> {}", type_of(&code), r.code))
            }
            1 => {
                // Exec4 by arbitrary caller (EAM included) over fresh / existing subaddresses
                let creator = match rng.weighted(&[40, 60]) {
                    0 => from,
                    _ => EAM_ACTOR_ADDR,
                };
                origin = creator;
                let sub: Vec<u8> = match (rng.weighted(&[40, 40, 20]), contracts.is_empty()) {
                    (0, false) => rng.pick(&contracts).eth.to_vec(),
                    (1, _) | (0, true) => rng.bytes(20),
                    _ => {
                        let n = 1 + rng.below(30) as usize;
                        rng.bytes(n)
                    }
                };
                let ctor = RawBytes::serialize(fil_actor_evm::ConstructorParams { creator: evm::eth_address(&[7u8; 20]), initcode: RawBytes::new(factory_init.clone()) }).unwrap();
                let code = if rng.chance(4, 5) { *EVM_ACTOR_CODE_ID } else { *MULTISIG_ACTOR_CODE_ID };
                let (r, inv) = call(&v, &creator, &INIT_ACTOR_ADDR, &TokenAmount::zero(), fil_actor_init::Method::Exec4 as u64, Some(&Exec4Params { code_cid: code, constructor_params: ctor, subaddress: sub.clone().into() }));
                if r.code.is_success()
                    && let Some(x) = ret::<fil_actor_init::Exec4Return>(&r)
                    && let Ok(e) = <[u8; 20]>::try_from(&sub[..])
                    && code == *EVM_ACTOR_CODE_ID
                {
                    contracts.push(evm::Deployed { id: x.id_address.id().unwrap(), eth: e });
                }
                (r.code.is_success(), inv, format!("Exec4 by {creator} sub={} -> {}", hex::encode(&sub), r.code))
            }
            2 => {
                // CreateExternal by account / ethaccount
                let deployer = if !eth_accounts.is_empty() && rng.chance(1, 2) { *rng.pick(&eth_accounts) } else { from };
                origin = deployer;
                let (name, init) = rng.pick(&inits).clone();
                let (res, inv) = evm::deploy(&v, &deployer, &init, &TokenAmount::zero());
                if let Ok(d) = &res {
                    if name == "factory" {
                        contracts.push(d.clone());
                    }
                    created += 1;
                }
                (res.is_ok(), inv, format!("CreateExternal by {deployer} init={name} -> {:?}", res.as_ref().map(|d| d.id)))
            }
            3 => {
                // drive a factory
                let Some(c) = rng.pick_opt(&contracts).cloned() else { continue };
                let (name, init) = rng.pick(&inits).clone();
                let mode = *rng.pick(&[1u8, 1, 2, 2, 2, 4, 5, 7, 7]);
                let salt: [u8; 32] = if !salts.is_empty() && rng.chance(1, 2) { *rng.pick(&salts) } else { evm::word(rng.below(4)) };
                if !salts.contains(&salt) {
                    salts.push(salt);
                }
                let mut cd = vec![mode];
                if mode == 7 {
                    // outer: [7][target address word][inner calldata = [1|2][salt][init]]
                    let target = if rng.chance(2, 3) { c.eth } else { rng.pick(&contracts).eth };
                    cd.extend_from_slice(&evm::addr_word(&target));
                    cd.push(if rng.chance(1, 2) { 1 } else { 2 });
                }
                cd.extend_from_slice(&salt);
                cd.extend_from_slice(&init);
                let value = if rng.chance(1, 4) { atto(1 + rng.below(1000)) } else { TokenAmount::zero() };
                let (r, inv) = evm::invoke(&v, &from, &Address::new_id(c.id), &cd, &value);
                if r.code.is_success() && r.data.len() == 32 && r.data[..12] == [0u8; 12] && r.data[12..] != [0u8; 20] {
                    let e: [u8; 20] = r.data[12..].try_into().unwrap();
                    if let Some(a) = v.resolve_id_address(&evm::f4(&e)) {
                        created += 1;
                        if name == "factory" && !contracts.iter().any(|x| x.eth == e) {
                            contracts.push(evm::Deployed { id: a.id().unwrap(), eth: e });
                        }
                    } else {
                        o.violate("address_stable", "C20/created_address_unresolvable", format!("step {step}: CREATE returned {} which does not resolve", hex::encode(e)));
                    }
                }
                (r.code.is_success(), inv, format!("factory {} mode={mode} init={name} salt={} value={value} -> {} {}", c.id, salt[31], r.code, hex::encode(&r.data)))
            }
            4 => {
                // self-destruct a contract
                let Some(c) = rng.pick_opt(&contracts).cloned() else { continue };
                let mut cd = vec![3u8];
                cd.extend_from_slice(&evm::addr_word(&evm::eth_of(&v, from.id().unwrap()).unwrap_or([0xff, 0, 0, 0, 0, 0, 0, 0, 0, 0, 0, 0, 0, 0, 0, 0, 0, 0, 0, 100])));
                let (r, inv) = evm::invoke(&v, &from, &Address::new_id(c.id), &cd, &TokenAmount::zero());
                (r.code.is_success(), inv, format!("selfdestruct {} -> {}", c.id, r.code))
            }
            5 => {
                // plain send to a fresh f1/f3/f4 address (auto-creates account / placeholder),
                // sometimes exactly the address a factory will create next
                let target = match rng.weighted(&[25, 25, 25, 25]) {
                    0 => Address::new_secp256k1(&rng.bytes(65)).unwrap(),
                    1 => Address::new_bls(&rng.bytes(48)).unwrap(),
                    2 => evm::f4(&rng.bytes(20).try_into().unwrap()),
                    _ => match rng.pick_opt(&contracts) {
                        Some(c) => {
                            let salt = evm::word(rng.below(4));
                            if !salts.contains(&salt) {
                                salts.push(salt);
                            }
                            let (_, init) = rng.pick(&inits).clone();
                            evm::f4(&evm::create2_address(&c.eth, &salt, &init))
                        }
                        None => evm::f4(&rng.bytes(20).try_into().unwrap()),
                    },
                };
                let (r, inv) = call0(&v, &from, &target, &atto(1 + rng.below(1_000_000)), METHOD_SEND);
                if r.code.is_success()
                    && let Payload::Delegated(_) = target.payload()
                    && let Some(a) = v.resolve_id_address(&target)
                    && v.actor_type(a.id().unwrap()) == Some(Type::Placeholder)
                    && eth_accounts.len() < 3
                {
                    eth_accounts.push(a);
                }
                (r.code.is_success(), inv, format!("send to {target} -> {}", r.code))
            }
            6 => {
                // a placeholder sends a message: becomes an EthAccount
                let Some(e) = rng.pick_opt(&eth_accounts).cloned() else { continue };
                origin = e;
                let (r, inv) = call0(&v, &e, &accts[0], &TokenAmount::zero(), METHOD_SEND);
                (r.code.is_success(), inv, format!("send from placeholder/ethaccount {e} -> {}", r.code))
            }
            _ => {
                // real miner creation through the power actor (Exec of miner code by power)
                let dep = crate::world::create_miner_deposit(&v);
                let p = fil_actor_power::CreateMinerParams {
                    owner: from,
                    worker: from,
                    window_post_proof_type: fvm_shared::sector::RegisteredPoStProof::StackedDRGWindow32GiBV1P1,
                    peer: b"p".to_vec(),
                    multiaddrs: vec![],
                };
                let (r, inv) = call(&v, &from, &STORAGE_POWER_ACTOR_ADDR, &dep, fil_actor_power::Method::CreateMiner as u64, Some(&p));
                (r.code.is_success(), inv, format!("power.CreateMiner -> {}", r.code))
            }
        };
        let _ = seq_before;
        // the message nonce seen by the actors is the origin's sequence before the message
        let origin_seq = v.actor(&v.resolve_id_address(&origin).unwrap_or(origin)).map(|a| a.sequence.saturating_sub(1)).unwrap_or(0);
        o.op(format!("{step}: {desc}"));
        o.count(if r_ok { "top_level_ok" } else { "top_level_rejected" });
        o.hash_mix(((kind as u64) << 1) | r_ok as u64);
        check_message(&v, &mut reg, inv.as_ref(), r_ok, origin_seq, &mut o, step);
    }
    o.add("contracts_tracked", contracts.len() as u64);
    o.nontrivial = created >= 2 && o.counters.get("new_actors").copied().unwrap_or(0) >= 4;
    let _ = IpldBlock::serialize_cbor(&0u8);
    o
}

pub fn run(cfg: &Cfg) -> i32 {
    let mut agg = Agg::new(cfg);
    let tier = cfg.tier;
    let n = tier.pick(4000, 80_000);
    agg.run_parallel("ids", n, Duration::from_secs(tier.pick(150, 1500)), |i, rng| history(i, rng, tier));
    agg.finish(
        "exploration",
        "one history = 40-70 creation-related top-level messages: init.Exec with arbitrary code/creator (accounts, power, EAM, contracts), init.Exec4 by EAM/others over fresh and existing subaddresses, EAM.CreateExternal by accounts/ethaccounts with working/reverting/invalid/empty/0xEF init code, factory contracts doing CREATE/CREATE2 (repeated salts, same salt twice in one message, endowment above balance, with value), SELFDESTRUCT and later redeploys, plain sends auto-creating f1/f3/f4 actors (incl. the address a later CREATE2 will get), placeholders turning into ethaccounts, power.CreateMiner; non-trivial = at least 2 contracts created and 4 new actors; distinct by hash of (op kind, outcome) sequence",
        tier.pick(50, 500),
        &["MVM actor creation / placeholder semantics equal the FVM's", "own Keccak-256 and RLP are correct (checked against published vectors in the harness self-test)", "reserved-range rejection is monitored passively only: no workload can make a hash land in a reserved range"],
        serde_json::json!({}),
    )
}
