//! Genesis world (same singletons as `TestVM::new_with_singletons`) and message helpers.
use crate::mvm::{Inv, Mvm};
use fil_actor_account::State as AccountState;
use fil_actor_cron::{Entry as CronEntry, State as CronState};
use fil_actor_datacap::State as DataCapState;
use fil_actor_init::{ExecReturn, State as InitState};
use fil_actor_market::{Method as MarketMethod, State as MarketState};
use fil_actor_power::{Method as MethodPower, State as PowerState};
use fil_actor_reward::State as RewardState;
use fil_actor_system::State as SystemState;
use fil_actor_verifreg::State as VerifRegState;
use fil_actors_runtime::cbor::serialize;
use fil_actors_runtime::runtime::{EMPTY_ARR_CID, Policy};
use fil_actors_runtime::test_utils::*;
use fil_actors_runtime::{
    BURNT_FUNDS_ACTOR_ADDR, CRON_ACTOR_ADDR, DATACAP_TOKEN_ACTOR_ADDR, EAM_ACTOR_ADDR,
    INIT_ACTOR_ADDR, REWARD_ACTOR_ADDR, STORAGE_MARKET_ACTOR_ADDR, STORAGE_POWER_ACTOR_ADDR,
    SYSTEM_ACTOR_ADDR, VERIFIED_REGISTRY_ACTOR_ADDR,
};
use fvm_ipld_encoding::ipld_block::IpldBlock;
use fvm_shared::address::{Address, FIRST_NON_SINGLETON_ADDR};
use fvm_shared::bigint::Zero;
use fvm_shared::econ::TokenAmount;
use fvm_shared::error::ExitCode;
use fvm_shared::sector::StoragePower;
use fvm_shared::{ActorID, METHOD_SEND, MethodNum};
use serde::Serialize;
use serde::de::DeserializeOwned;
use vm_api::util::serialize_ok;
use vm_api::{MessageResult, VM, new_actor};

pub const VERIFREG_ROOT_KEY: &[u8] = &[200; fvm_shared::address::BLS_PUB_LEN];
pub const ROOT_SIGNER_ID: ActorID = FIRST_NON_SINGLETON_ADDR;
pub const ROOT_SIGNER: Address = Address::new_id(ROOT_SIGNER_ID);
pub const ROOT_MSIG_ID: ActorID = FIRST_NON_SINGLETON_ADDR + 1;
pub const ROOT_MSIG: Address = Address::new_id(ROOT_MSIG_ID);
pub const FAUCET_ROOT_KEY: &[u8] = &[153; fvm_shared::address::BLS_PUB_LEN];
pub const FAUCET: Address = Address::new_id(FIRST_NON_SINGLETON_ADDR + 2);

pub fn genesis(policy: Policy) -> Mvm {
    let reward_total = TokenAmount::from_whole(1_100_000_000i64);
    let faucet_total = TokenAmount::from_whole(1_000_000_000i64);
    let v = Mvm::new_bare(policy);
    v.set_circulating_supply(&reward_total + &faucet_total);
    let store = v.store.clone();

    let sys_st = SystemState::new(&store).unwrap();
    let sys_head = v.put_store(&sys_st);
    v.set_actor(&SYSTEM_ACTOR_ADDR, new_actor(*SYSTEM_ACTOR_CODE_ID, sys_head, 0, faucet_total.clone(), None));

    let init_st = InitState::new(&store, "integration-test".to_string()).unwrap();
    let init_head = v.put_store(&init_st);
    v.set_actor(&INIT_ACTOR_ADDR, new_actor(*INIT_ACTOR_CODE_ID, init_head, 0, TokenAmount::zero(), None));

    let reward_head = v.put_store(&RewardState::new(StoragePower::zero()));
    v.set_actor(&REWARD_ACTOR_ADDR, new_actor(*REWARD_ACTOR_CODE_ID, reward_head, 0, reward_total, None));

    let builtin_entries = vec![
        CronEntry { receiver: STORAGE_POWER_ACTOR_ADDR, method_num: MethodPower::OnEpochTickEnd as u64 },
        CronEntry { receiver: STORAGE_MARKET_ACTOR_ADDR, method_num: MarketMethod::CronTick as u64 },
    ];
    let cron_head = v.put_store(&CronState { entries: builtin_entries });
    v.set_actor(&CRON_ACTOR_ADDR, new_actor(*CRON_ACTOR_CODE_ID, cron_head, 0, TokenAmount::zero(), None));

    let power_head = v.put_store(&PowerState::new(&store).unwrap());
    v.set_actor(&STORAGE_POWER_ACTOR_ADDR, new_actor(*POWER_ACTOR_CODE_ID, power_head, 0, TokenAmount::zero(), None));

    let market_head = v.put_store(&MarketState::new(&store).unwrap());
    v.set_actor(&STORAGE_MARKET_ACTOR_ADDR, new_actor(*MARKET_ACTOR_CODE_ID, market_head, 0, TokenAmount::zero(), None));

    v.execute_message(&INIT_ACTOR_ADDR, &Address::new_bls(VERIFREG_ROOT_KEY).unwrap(), &TokenAmount::zero(), METHOD_SEND, None).unwrap();
    let verifreg_root_signer = v.resolve_id_address(&Address::new_bls(VERIFREG_ROOT_KEY).unwrap()).unwrap();
    assert_eq!(ROOT_SIGNER, verifreg_root_signer);
    let msig_ctor_params = serialize(
        &fil_actor_multisig::ConstructorParams {
            signers: vec![verifreg_root_signer],
            num_approvals_threshold: 1,
            unlock_duration: 0,
            start_epoch: 0,
        },
        "multisig ctor params",
    )
    .unwrap();
    let msig_ctor_ret: ExecReturn = v
        .execute_message(
            &SYSTEM_ACTOR_ADDR,
            &INIT_ACTOR_ADDR,
            &TokenAmount::zero(),
            fil_actor_init::Method::Exec as u64,
            Some(serialize_ok(&fil_actor_init::ExecParams {
                code_cid: *MULTISIG_ACTOR_CODE_ID,
                constructor_params: msig_ctor_params,
            })),
        )
        .unwrap()
        .ret
        .unwrap()
        .deserialize()
        .unwrap();
    assert_eq!(ROOT_MSIG, msig_ctor_ret.id_address);
    let verifreg_head = v.put_store(&VerifRegState::new(&store, ROOT_MSIG).unwrap());
    v.set_actor(&VERIFIED_REGISTRY_ACTOR_ADDR, new_actor(*VERIFREG_ACTOR_CODE_ID, verifreg_head, 0, TokenAmount::zero(), None));

    v.set_actor(&EAM_ACTOR_ADDR, new_actor(*EAM_ACTOR_CODE_ID, EMPTY_ARR_CID, 0, TokenAmount::zero(), None));

    let datacap_head = v.put_store(&DataCapState::new(&store, VERIFIED_REGISTRY_ACTOR_ADDR).unwrap());
    v.set_actor(&DATACAP_TOKEN_ACTOR_ADDR, new_actor(*DATACAP_TOKEN_ACTOR_CODE_ID, datacap_head, 0, TokenAmount::zero(), None));

    let burnt_funds_head = v.put_store(&AccountState { address: BURNT_FUNDS_ACTOR_ADDR });
    v.set_actor(&BURNT_FUNDS_ACTOR_ADDR, new_actor(*ACCOUNT_ACTOR_CODE_ID, burnt_funds_head, 0, TokenAmount::zero(), None));

    v.execute_message(&SYSTEM_ACTOR_ADDR, &Address::new_bls(FAUCET_ROOT_KEY).unwrap(), &faucet_total, METHOD_SEND, None).unwrap();
    assert_eq!(v.resolve_id_address(&Address::new_bls(FAUCET_ROOT_KEY).unwrap()).unwrap(), FAUCET);
    v.checkpoint();
    v.invs.borrow_mut().clear();
    v
}

/// create `n` funded accounts (alternating secp / bls keys), returns their id addresses
pub fn make_accounts(v: &Mvm, n: usize, seed: u64, balance: &TokenAmount) -> Vec<Address> {
    let mut out = vec![];
    let mut st = seed;
    for i in 0..n {
        let k = crate::rng::splitmix(&mut st);
        let addr = if i % 2 == 0 {
            let mut key = [0u8; 65];
            for (j, b) in key.iter_mut().enumerate() {
                *b = (k >> ((j % 8) * 8)) as u8 ^ (j as u8).wrapping_mul(31);
            }
            Address::new_secp256k1(&key).unwrap()
        } else {
            let mut key = [0u8; fvm_shared::address::BLS_PUB_LEN];
            for (j, b) in key.iter_mut().enumerate() {
                *b = (k >> ((j % 8) * 8)) as u8 ^ (j as u8).wrapping_mul(17);
            }
            Address::new_bls(&key).unwrap()
        };
        let r = v.execute_message(&FAUCET, &addr, balance, METHOD_SEND, None).unwrap();
        assert_eq!(r.code, ExitCode::OK);
        out.push(v.resolve_id_address(&addr).unwrap());
    }
    out
}

pub fn blk<T: Serialize>(t: &T) -> Option<IpldBlock> {
    IpldBlock::serialize_cbor(t).unwrap()
}

/// call with serialisable params; returns result and invocation record
pub fn call<T: Serialize>(
    v: &Mvm,
    from: &Address,
    to: &Address,
    value: &TokenAmount,
    method: MethodNum,
    params: Option<&T>,
) -> (MessageResult, Option<Inv>) {
    let p = params.and_then(|p| IpldBlock::serialize_cbor(p).unwrap());
    v.exec(from, to, value, method, p)
}

pub fn call0(
    v: &Mvm,
    from: &Address,
    to: &Address,
    value: &TokenAmount,
    method: MethodNum,
) -> (MessageResult, Option<Inv>) {
    v.exec(from, to, value, method, None)
}

pub fn ret<T: DeserializeOwned>(r: &MessageResult) -> Option<T> {
    r.ret.as_ref().and_then(|b| b.deserialize().ok())
}

pub fn state<T: DeserializeOwned>(v: &Mvm, a: &Address) -> Option<T> {
    vm_api::util::get_state(v, a)
}

pub fn fil(n: i64) -> TokenAmount {
    TokenAmount::from_whole(n)
}
pub fn atto(n: u64) -> TokenAmount {
    TokenAmount::from_atto(n)
}

// ---------------------------------------------------------------------------------------------
// Signature scheme of the harness worlds: a signature by key address K over message M is
// `K.to_bytes() ++ M`. (The repo's default fake accepts `sig == M` for every signer, which cannot
// express "signed by somebody else".)
fn verify_sig_scheme(
    sig: &fvm_shared::crypto::signature::Signature,
    signer: &Address,
    plaintext: &[u8],
) -> Result<(), anyhow::Error> {
    let mut want = signer.to_bytes();
    want.extend_from_slice(plaintext);
    if sig.bytes == want { Ok(()) } else { Err(anyhow::anyhow!("bad signature")) }
}

pub fn install_sig_scheme(v: &Mvm) {
    v.mut_primitives().override_verify_signature(verify_sig_scheme);
}

/// key address of an account actor (from its state)
pub fn key_of(v: &Mvm, id: &Address) -> Address {
    let st: AccountState = state(v, id).expect("account state");
    st.address
}

pub fn sign(key: &Address, msg: &[u8]) -> Vec<u8> {
    let mut s = key.to_bytes();
    s.extend_from_slice(msg);
    s
}

/// the deposit power.CreateMiner demands right now (same formula as the miner constructor)
pub fn create_miner_deposit(v: &Mvm) -> TokenAmount {
    let power_state: PowerState = state(v, &STORAGE_POWER_ACTOR_ADDR).unwrap();
    let reward_state: RewardState = state(v, &REWARD_ACTOR_ADDR).unwrap();
    fil_actor_miner::initial_pledge_for_power(
        &fvm_shared::bigint::BigInt::from(fil_actors_runtime::runtime::policy_constants::CREATE_MINER_DEPOSIT_POWER),
        &reward_state.this_epoch_baseline_power,
        &reward_state.this_epoch_reward_smoothed,
        &power_state.this_epoch_qa_power_smoothed,
        &v.circulating_supply(),
        v.epoch() - power_state.ramp_start_epoch,
        power_state.ramp_duration_epochs,
    )
}
