#!/usr/bin/env python3
"""Regenerates /verif/MANIFEST.json from the table below (single source of truth for the interface)."""
import json, subprocess

BASELINE_OFF = ("cd /repo && cargo nextest run --workspace --no-fail-fast --test-threads 8 --offline "
                "|| cargo test --workspace --no-fail-fast --offline")

def repo_hook_commits():
    out = subprocess.run(["git", "-C", "/repo", "log", "--format=%H %s"], capture_output=True, text=True).stdout
    return [l.split()[0] for l in out.splitlines() if " verif-hooks:" in l]

# id -> (level, technique, level text, level note, design ref) ; None = not yet claimed
CHECKS = {
 "C12": ("exploration",
         "online trace monitor + reference model (multisig) over generated propose/approve/cancel/reconfigure histories incl. re-entrant self-calls",
         "Every send leaving a wallet is judged, in execution order inside the invocation tree, against a model built only from observed successful calls (quorum of distinct current signers for exactly that tx, executed once, lock-up respected with an independent vesting computation); signers/threshold/lock/pending state is compared with the model after every message. Held on the histories explored; not a proof.",
         "Trusted: MVM nested-send/rollback semantics; the model mirrors two code behaviours the statement allows (Approve executes an already-met lowered threshold; a tx whose approvals are all purged disappears).",
         "DESIGN.md 3/C12"),
 "C16": ("exploration",
         "history + executable reference model (payment channel) over generated voucher/settle/collect histories on the real actor",
         "Every generated history is executed on the real paych actor inside the monitoring VM; after every call the observed acceptance, to_send, lanes, settle heights, payouts and actor deletion are compared with a literal reference channel. Held on the histories explored; not a proof.",
         "Trusted: MVM message/value/deletion semantics (differentially checked against the repo's TestVM), the harness signature scheme, my reading of the statement (lanes merged form a set).",
         "DESIGN.md 3/C16"),
}
NOT_YET = "check not built yet in this working session (framework in progress); will be claimed once its monitor exists"

props = [json.loads(l) for l in open("/verif/properties.jsonl")]
checks, na = [], []
for p in props:
    pid = p["id"]
    c = CHECKS.get(pid)
    if c is None:
        na.append({"property_id": pid, "reason": NOT_YET})
        continue
    level, technique, text, note, ref = c
    checks.append({
        "property_id": pid,
        "quick_cmd": f"/verif/check {pid} quick",
        "thorough_cmd": f"/verif/check {pid} thorough",
        "evidence_file": f"/verif/evidence/{pid}.json",
        "replay_cmd_template": f"/verif/check {pid} --replay {{path}}",
        "engine": "vh",
        "level_claimed": {"category": level, "text": text, "design_ref": ref},
        "level_note": note,
        "technique": technique,
    })
m = {
 "version": 1,
 "setup_cmd": "/verif/setup.sh",
 "hooks": {
   "guard": "cargo feature `verif-hooks` (crate fil_actor_evm), off by default",
   "enable": "the harness crate /verif/harness depends on /repo's crates by path and is built with `--features hooks`, which turns on fil_actor_evm/verif-hooks",
   "baseline_off_cmd": BASELINE_OFF,
   "source_commits": repo_hook_commits(),
   "add_only": True,
 },
 "engines": [{"name": "vh", "path": "/verif/harness", "serves_properties": [c["property_id"] for c in checks],
              "kind_free_text": "Rust harness: monitoring VM (derived from test_vm) running the real actor code natively, workload generators, reference models, offline trace checkers; Miri/ASan drivers for the EVM interpreter"}],
 "checks": checks,
 "not_applicable": na,
 "notes": "Runtime monitoring and sanitizers only. Exit 0 = held on everything explored, 1 = VIOLATION line, 2 = harness error / inconclusive. Known findings: /verif/known_findings.json.",
}
json.dump(m, open("/verif/MANIFEST.json", "w"), indent=1)
print("checks:", [c["property_id"] for c in checks], "not claimed:", len(na))
