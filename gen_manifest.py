#!/usr/bin/env python3
"""Regenerates /verif/MANIFEST.json from the table below (single source of truth for the interface)."""
import json, subprocess

BASELINE_OFF = ("cd /repo && cargo nextest run --workspace --no-fail-fast --test-threads 8 --offline "
                "|| cargo test --workspace --no-fail-fast --offline")

def repo_hook_commits():
    out = subprocess.run(["git", "-C", "/repo", "log", "--format=%H %s"], capture_output=True, text=True).stdout
    return [l.split()[0] for l in out.splitlines() if " verif-hooks:" in l]

# id -> (level, technique, level text, level note, design ref) ; None = not yet claimed
CHECKS = {
 "C01": ("exploration",
         "conservation and solvency invariants recomputed after every message and tick + trace-level double entry, over generated whole-miner histories with random tolerated send failures injected",
         "Sum of all balances constant, every effective send covered by the sender's balance, burn account only grows by exactly the effective sends to it, miner balance >= deposits+vesting+pledge, market escrow <= balance, reward never pays more than it holds; checked after every message and every cron tick with 1.5% of nested sends failing by injection. Payment-channel solvency is decided in C16's histories. Held on what was explored.",
         "Trusted: MVM value-transfer/rollback semantics (differentially tested against TestVM); no gas, block production or minting in the MVM.",
         "DESIGN.md 3/C01"),
 "C02": ("exploration",
         "state recomputation (claim == sum of proven, non-faulty, live sectors with an independent QA-power formula; network totals) + history shadow of PoSt coverage, after every message and tick",
         "Per-miner claims and the four network totals are recomputed from sector infos and partition bitfields; a shadow built only from accepted PoSts / fault declarations / missed deadlines asserts that every sector counted active was covered by an accepted PoSt and is not known faulty. Held on what was explored.",
         "Trusted: MVM; proofs are accepted unless marked invalid; my QA-power re-implementation (20-bit fixed point, 10x verified multiplier).",
         "DESIGN.md 3/C02"),
 "C03": ("exploration",
         "ledger recomputation per miner and network pledge total vs sum over miners, after every message and tick; failed UpdatePledgeTotal sends flagged",
         "pre-commit deposits == sum over pre-commit map, locked funds == sum of vesting table, initial pledge == sum over live sectors, network total == sum(pledge+vesting); any failed UpdatePledgeTotal inside an otherwise valid call is reported. Two known findings (creation deposit) are keyed by exact shape. Held on what was explored.",
         "Trusted: MVM; the known-finding classification compares the mismatch with the exact sum of creation deposits.",
         "DESIGN.md 3/C03, 5.1"),
 "C04": ("exploration",
         "full independent recomputation of the miner's sector bookkeeping (sets, memos, queues) after every successful message and cron callback + allocation history shadow",
         "Every sector in exactly one partition, set relations, all power / pledge / fee / count memos and expiration-queue summaries recomputed from sector infos, queue keys on the deadline's grid, allocated numbers never shrink and never re-enter use. Held on what was explored.",
         "Trusted: MVM; repo types used for decoding only; memo conventions (which sets each summary ranges over) follow the protocol definitions as also used by the in-tree checker.",
         "DESIGN.md 3/C04"),
 "C05": ("fault_enumeration",
         "online trace monitor of every cron tick (exit code of every cron entry and miner callback, claims before/after, panics, exit 1000) + schedule invariants from the decoded power cron queue; nested sends failed by injection in C01's runs",
         "Every tick and callback must exit 0, no claim may vanish, exactly one pending proving-deadline callback while a miner holds funds, recorded deadline index/offset current after each tick, expiration-queue entries popped by the tick that ends their deadline, no exit code 1000 anywhere. Known findings (creation deposit: no cron until first pre-commit; callback failure on pledge underflow in small networks) keyed by exact shape. Held on what was explored.",
         "Trusted: MVM; sparse ticking runs every epoch that has a scheduled event (dense workload runs every epoch); recorded period start compared modulo the proving period (the code uses it as an offset).",
         "DESIGN.md 3/C05, 5.1"),
 "C06": ("exploration",
         "invariant recomputation from raw market state after every message and tick + withdrawal oracle, over generated market histories on the real market/miner/power actors",
         "After every message and every cron tick the locked table is recomputed from the proposals/deal-state arrays (obligation formulas written in the harness) and compared per party and in total; every withdrawal's amount, recipient and caller are judged; rejected withdrawals must change nothing. Held on the histories explored.",
         "Trusted: MVM semantics; activation/termination notices are injected from the miner actors' addresses; obligations formula is my reading of the statement (client: collateral + price x unpaid epochs; provider: collateral).",
         "DESIGN.md 3/C06"),
 "C07": ("exploration",
         "differential/metamorphic runs of one world prefix under many settlement schedules + per-message payment accounting against balance deltas + closed form",
         "The same snapshot is continued under 5-10 schedules (cron only, single late settlement, many partial settlements at boundary epochs, with a fixed termination plan); final escrow balances and burn must coincide and equal price x (min(end,termination)-start). In random histories every escrow delta must equal price x cursor movement, cursors never go back, and each deal's validated payments equal the closed form when it leaves. Held on what was explored.",
         "Trusted: MVM semantics; idle epochs are skipped, every epoch with scheduled work is ticked; deals longer than the 180-day minimum + 100 days are sampled rarely.",
         "DESIGN.md 3/C07"),
 "C08": ("exploration",
         "history + reference registry (deal ids, pending proposals, activations) over generated publish/activate/settle/terminate histories",
         "A registry built from the harness's own submissions and the observed returns decides: ids strictly increasing and unique, no proposal accepted again while its earlier deal is outstanding, acceptance only if authenticated / own provider / funded / not started, each id activated at most once, by its provider, no later than start, in a sector that outlives it, unactivated deals removed at/after start with collateral burnt. Held on what was explored.",
         "Trusted: MVM semantics; harness signature scheme; activations are injected from miner addresses (real miner path exercised in the miner checks).",
         "DESIGN.md 3/C08"),
 "C09": ("exploration",
         "ledger model over raw verifreg + datacap state after every message (supply, balances, minted-burnt from observed calls, verifier caps, registry balance vs unclaimed allocations) + per-allocation automaton",
         "supply == sum of balances == observed mints - burns; a verifier's cap falls by exactly each grant and the client's balance rises by it; the registry's token balance == total size of unclaimed allocations; every allocation id ends in exactly one of claimed (by its provider, matching data/size/terms, before expiration) or refunded (after expiration, to its client), never both, never twice, ids never reused. Held on what was explored.",
         "Trusted: MVM; ClaimAllocations is sent from miner addresses directly here (the sealing path is used in C10); harness signature scheme for datacap removals.",
         "DESIGN.md 3/C09"),
 "C10": ("exploration",
         "shadow map (sector -> backing claims) built from observed ClaimAllocations / accepted drops on the real sealing path, compared with sector infos and the registry after every message; directed hostile extension declarations",
         "For every live sector with verified weight: verified space == sum of its backing claims' sizes, each backing claim still in the registry, names this provider and sector, started no earlier than activation, and term_start+term_min <= expiration <= term_start+term_max; claims dropped only in the final 30 days; term_max never decreases; claims/allocations removed only after expiry. Held on what was explored.",
         "Trusted: MVM; proofs accepted; ProveReplicaUpdates3 onboarding not exercised; legacy QAP sectors unreachable.",
         "DESIGN.md 3/C10, 5.5"),
 "C12": ("exploration",
         "online trace monitor + reference model (multisig) over generated propose/approve/cancel/reconfigure histories incl. re-entrant self-calls",
         "Every send leaving a wallet is judged, in execution order inside the invocation tree, against a model built only from observed successful calls (quorum of distinct current signers for exactly that tx, executed once, lock-up respected with an independent vesting computation); signers/threshold/lock/pending state is compared with the model after every message. Held on the histories explored; not a proof.",
         "Trusted: MVM nested-send/rollback semantics; the model mirrors two code behaviours the statement allows (Approve executes an already-met lowered threshold; a tx whose approvals are all purged disappears).",
         "DESIGN.md 3/C12"),
 "C20": ("exploration",
         "registry monitor over init map / next_id / (id -> code) and all creation calls in traces; contract addresses recomputed with own Keccak-256 + RLP",
         "After every message: ids fresh and never reused, address map only grows, code at an id changes only placeholder -> EVM/EthAccount, permitted (creator, code) pairs only, CREATE/CREATE2/CreateExternal addresses equal the Ethereum formulas, no deployment over a live actor, reserved ranges never assigned, nonce delta == create attempts that passed the endowment check. Held on the histories explored.",
         "Trusted: MVM creation/placeholder semantics; own Keccak/RLP; the reserved-range rejection itself cannot be exercised (needs a hash preimage) and is monitored passively.",
         "DESIGN.md 3/C20"),
 "C13": ("exploration",
         "three protocol automata (owner / worker key / beneficiary) judged on miner-info transitions with the observed caller, plus rights probes on restored snapshots",
         "Every change of owner, worker, control addresses, beneficiary, terms and pending data between two consecutive observations must be a transition the handover protocols allow for the caller and epoch seen (two-sided owner change, worker change no earlier than the delay and only via owner confirmation or the deadline callback, beneficiary change with nominee + active beneficiary approval); rejected calls change nothing; current parties keep their rights and nominees have none (probed). Held on what was explored.",
         "Trusted: MVM; beneficiary term 'active' = not expired and quota not exhausted.",
         "DESIGN.md 3/C13"),
 "C14": ("exploration",
         "vesting envelope (lower and upper bound from observed lock events, independent linear schedule), quantisation grid, and withdrawal oracle over generated miner histories incl. 190-day tails",
         "Locked funds never fall below what the 180-day linear schedules of the observed lock events (creation deposit, 75% of each reward) require, minus at most what the miner burnt/paid as its own penalties; after an unlocking event no more remains than the slowest reading of the schedules allows (so everything unlocks, once); table entries lie on the 12 h grid of the miner's offset; every withdrawal is by owner/beneficiary, paid only to the beneficiary, within quota/expiry, never with unprocessed early terminations, leaves all collateral covered and no fee debt. Held on what was explored.",
         "Trusted: MVM; lock amounts are taken as 75% (floor) of the observed ApplyRewards reward; penalties paid out of vesting are over-approximated by everything the miner burnt.",
         "DESIGN.md 3/C14"),
 "C15": ("fault_enumeration",
         "per-message / per-callback fee accounting (burnt + reporter share + fee-debt change) against independently recomputed fees (floating-point BR projection), debt gating, and re-runs of every consensus-fault report from a snapshot with the reporter transfer failing",
         "Deadline callbacks closing with faulty power charge at least BR(3.51 d) of that power (recomputed numerically from the estimates passed to the callback, 2% tolerance, only when the estimates are well-conditioned); early terminations settled in a message are charged at least the pledge/age floor (2%..8.5%); consensus-fault penalty == burnt + reporter share + debt change exactly, also when the reporter transfer fails (enumerated); reporter reward <= amount taken; WithdrawBalance / PreCommit / DeclareFaultsRecovered succeed with debt only if they repay it in full; no value flows to a penalised miner. Held on what was explored.",
         "Trusted: MVM; worlds start from a converged network power estimate (the whale's proven power) so that projections are meaningful; the upper protocol cap of termination fees (105% of the fault fee) is not checked, only the floor.",
         "DESIGN.md 3/C15, 5.2"),
 "C16": ("exploration",
         "history + executable reference model (payment channel) over generated voucher/settle/collect histories on the real actor",
         "Every generated history is executed on the real paych actor inside the monitoring VM; after every call the observed acceptance, to_send, lanes, settle heights, payouts and actor deletion are compared with a literal reference channel. Held on the histories explored; not a proof.",
         "Trusted: MVM message/value/deletion semantics (differentially checked against the repo's TestVM), the harness signature scheme, my reading of the statement (lanes merged form a set).",
         "DESIGN.md 3/C16"),
 "C11": ("exploration",
         "hand-written caller specification table executed as an exhaustive (method x caller class) matrix on the real actors in fixture worlds; state-equality oracle on every rejected cell",
         "Every specified (actor, method) row is called by each of 28 caller classes from a restored snapshot: designated callers must succeed and have validated the caller, all others must fail and leave every actor's state, balance and code unchanged; method numbers below 2^24 must reject EVM-typed callers; undefined method numbers 1..40 plus exported-range samples must be rejected. Rows without a succeeding fixture call are decided on the rejection side only (listed in the evidence). Held on the matrix executed.",
         "Trusted: my specification table (from the role descriptions, not generated from the code); MVM caller-validation semantics (FVM trampoline behaviour re-implemented: abort if the caller was not validated).",
         "DESIGN.md 3/C11"),
 "C17": ("exploration",
         "differential execution: real EVM actor (deployed and invoked through EAM/InvokeContract in the monitoring VM) vs an independent reference interpreter over generated programs",
         "Boundary-operand single instructions, structured programs (jumps, loops, memory, MCOPY, storage, transient storage, copies, KECCAK256), byte-level mutants and stack-limit programs run on both; outcome class, return/revert data and every touched storage slot must agree. Held on the programs explored.",
         "Trusted: the reference interpreter harness/src/refevm.rs (own Keccak, num-bigint arithmetic, 52 self-tests against published vectors); MVM; no gas model.",
         "DESIGN.md 3/C17"),
 "C18": ("exploration",
         "arbitrary bytes as init code / runtime code / calldata on the real actor with guarded interpreter hooks (stack high-water mark, memory size, taken jumps, step watchdog) + state-tree-root monitors around every read-only invocation",
         "No panic, defined exit codes only, stack <= 1024, every taken jump lands on a JUMPDEST outside push data by my own analysis, memory beyond 2^32 rejected (reference comparison), and under STATICCALL at depth 1-3 nine kinds of effect leave state roots, storage, balances, events and tombstones untouched. Held on what was explored; Miri/ASan passes listed in DESIGN.md.",
         "Trusted: hooks are observation-only (feature verif-hooks); MVM read-only semantics follow the FVM kernel (events and state writes refused).",
         "DESIGN.md 3/C18"),
 "C19": ("exploration",
         "history + executable reference model: systems of 2-4 interpreter contracts run generated call-tree scripts; a journaled world model predicts every read, outcome, final storage, balances, tombstones and surviving events",
         "Scripts nest CALL / STATICCALL / DELEGATECALL / re-entrant calls to depth 6 with unique-valued SSTORE/TSTORE and reads before and after each call, reverts and INVALID at chosen depths, SELFDESTRUCT, value transfers and logs over sequences of top-level messages; the flattened read report and the end state must equal the model's. Held on the systems explored.",
         "Trusted: the DSL world model (c19.rs); CREATE inside scripts is covered by C20's factory instead.",
         "DESIGN.md 3/C19"),
}
NOT_YET = "check not built yet in this working session (framework in progress); will be claimed once its monitor exists"

props = [json.loads(l) for l in open("/verif/properties.jsonl")]
checks, na = [], []
for p in props:
    pid = p["id"]
    c = CHECKS.get(pid)
    if c is None:
        na.append({"property_id": pid, "reason": NOT_YET})
        continue
    level, technique, text, note, ref = c
    checks.append({
        "property_id": pid,
        "quick_cmd": f"/verif/check {pid} quick",
        "thorough_cmd": f"/verif/check {pid} thorough",
        "evidence_file": f"/verif/evidence/{pid}.json",
        "replay_cmd_template": f"/verif/check {pid} --replay {{path}}",
        "engine": "vh",
        "level_claimed": {"category": level, "text": text, "design_ref": ref},
        "level_note": note,
        "technique": technique,
    })
m = {
 "version": 1,
 "setup_cmd": "/verif/setup.sh",
 "hooks": {
   "guard": "cargo feature `verif-hooks` (crate fil_actor_evm), off by default",
   "enable": "the harness crate /verif/harness depends on /repo's crates by path and is built with `--features hooks`, which turns on fil_actor_evm/verif-hooks",
   "baseline_off_cmd": BASELINE_OFF,
   "source_commits": repo_hook_commits(),
   "add_only": True,
 },
 "engines": [{"name": "vh", "path": "/verif/harness", "serves_properties": [c["property_id"] for c in checks],
              "kind_free_text": "Rust harness: monitoring VM (derived from test_vm) running the real actor code natively, workload generators, reference models, offline trace checkers; Miri/ASan drivers for the EVM interpreter"}],
 "checks": checks,
 "not_applicable": na,
 "notes": "Runtime monitoring and sanitizers only. Exit 0 = held on everything explored, 1 = VIOLATION line, 2 = harness error / inconclusive. Known findings: /verif/known_findings.json.",
}
json.dump(m, open("/verif/MANIFEST.json", "w"), indent=1)
print("checks:", [c["property_id"] for c in checks], "not claimed:", len(na))
